//! Suites `stream` (C09) and `decthread` (C10).
//!
//! A static sound and a streaming sound of the same audio, settings and command history, side by side:
//! `StaticSoundData{..}.into_sound()` and `verif_hooks::streaming::split(StreamingSoundData::from_decoder(
//! ScriptDecoder))`. The decoder side is stepped by hand (`dec`: raw `HScheduler::run()` calls) or runs as the
//! REAL decoder thread (`HScheduler::start()`) held at kira's yield points `decoder.loop.top` /
//! `decoder.loop.before_error_push` (`tstart` / `tstep`: one gate-to-gate stretch of the thread per step).
//!
//! ops:  info.clocks … / info.mods …                    (as in suite `param`)
//!       new <sample rate> <len> <coding> <slice> <start time> <start position> <loop region>
//!           <volume value> <rate value> <panning value> <fade-in tween|none> <packet sizes a,b,…> <seek granularity> <fail k|none>
//!       dec <max>        up to <max> raw `run()` calls, stopping after Wait / End / Err        → `<calls> <last> T …`
//!       tstart           spawn the real decoder thread, held at its first gate
//!       tstep <n>        let the thread run n gate-to-gate stretches                           → `pc=<top|err|ended|panicked> T …`
//!       start            `on_start_processing()` of both sounds (the streaming sound is unloaded when finished, as its track would)
//!       proc <len> <dt>  `process` of both → `S … T … F <streaming frames> X <= | static frames>`
//!       vol|rate|pan <value> <tween>   pause <tween>   resume <start> <tween>   stop <tween>   loop <region>   seekto|seekby <f64>
//!       poperr           `handle.pop_error()`           sdrop   the streaming `Box<dyn Sound>` is dropped (rejected / track or manager gone)
//!       hdrop            the streaming handle is dropped
//!       rt <scenario> …  real, free-running decoder threads through `manager.play` (implementation side only; the twin echoes `ok`)
//! every op prints `S <state> <position> <finished>` for the static and `T …` for the streaming sound.
use crate::probe;
use crate::runner::{run_cases, Out};
use crate::suites::param::{gen_tween, ids, parse_start, parse_tween, parse_value, Ids, InfoState, MAX_IDS};
use crate::suites::psm::{gen_info_clocks, state_num};
use crate::suites::static_sound::{
	fmt_slice, gen_chunk, gen_dt, gen_frames, gen_life_tween, gen_pan_value, gen_shape, gen_start_time,
	gen_valid_loop, gen_vol_value,
};
use crate::suites::transport::{fmt_pos, parse_pos, parse_region};
use crate::util::*;
use kira::sound::static_sound::{StaticSoundData, StaticSoundHandle, StaticSoundSettings};
use kira::sound::streaming::{Decoder, StreamingSoundData, StreamingSoundHandle, StreamingSoundSettings};
use kira::sound::{EndPosition, PlaybackPosition, PlaybackState, Region, Sound, SoundData};
use kira::track::{MainTrackBuilder, TrackBuilder};
use kira::verif_hooks::streaming::{split, HNextStep, HScheduler};
use kira::{Capacities, Decibels, Frame, Panning, PlaybackRate, StartTime, Tween, Value};
use std::cell::RefCell;
use std::sync::atomic::{AtomicBool, AtomicUsize, Ordering};
use std::sync::{Arc, Condvar, Mutex, Once};
use std::time::{Duration, Instant};

/// how often each oracle's premise held (printed to stderr when `KV_ORACLE_STATS` is set)
static CHECKS: [AtomicUsize; 11] = [const { AtomicUsize::new(0) }; 11];
const CHECK_NAMES: [&str; 11] = [
	"side_by_side_proc_calls",
	"side_by_side_frames_rendered",
	"position_within_a_frame",
	"error_stops_sound",
	"first_error_popped",
	"thread_ends_after_stopped",
	"gapped_walk_frames",
	"proc_calls_not_comparable",
	"thread_ends_after_abandoned",
	"seek_walk_frames",
	"seek_walk_seeks",
];
fn tick(i: usize, n: usize) {
	CHECKS[i].fetch_add(n, Ordering::Relaxed);
}

// ---------------------------------------------------------------------------------------------
// the scripted decoder
// ---------------------------------------------------------------------------------------------

#[derive(Debug, Clone, Copy, PartialEq, Eq)]
pub struct ScriptErr;

/// what the harness can see of a decoder that lives inside kira
#[derive(Default)]
pub struct DecProbe {
	pub decode_calls: AtomicUsize,
	pub seek_calls: AtomicUsize,
	pub errors: AtomicUsize,
	/// decode/seek calls made after the first error was returned
	pub calls_after_error: AtomicUsize,
	pub dropped: AtomicBool,
	pub dropped_in_panic: AtomicBool,
}
impl DecProbe {
	pub fn calls(&self) -> usize {
		self.decode_calls.load(Ordering::SeqCst) + self.seek_calls.load(Ordering::SeqCst)
	}
}

/// An in-memory `Decoder` (twin: `Model/StreamingSound.lean::scriptDecoder`): a cyclic list of packet sizes,
/// a seek granularity, and a sticky failure: the `fail_at`-th call (decode and seek calls counted together
/// from 0) and every later call return `Err`.
pub struct ScriptDecoder {
	pub frames: Arc<[Frame]>,
	pub sr: u32,
	pub pos: usize,
	pub packets: Vec<usize>,
	pub pkt: usize,
	pub gran: usize,
	pub ok_calls: usize,
	pub fail_at: Option<usize>,
	/// real-thread scenarios only: fail exactly once (not sticky)
	pub transient: bool,
	/// real-thread scenarios only: every `decode` takes this long
	pub delay: Option<Duration>,
	pub probe: Arc<DecProbe>,
}
impl ScriptDecoder {
	pub fn new(frames: Arc<[Frame]>, sr: u32, packets: Vec<usize>, gran: usize, fail_at: Option<usize>) -> (Self, Arc<DecProbe>) {
		let probe = Arc::new(DecProbe::default());
		(
			Self {
				frames,
				sr,
				pos: 0,
				packets,
				pkt: 0,
				gran,
				ok_calls: 0,
				fail_at,
				transient: false,
				delay: None,
				probe: probe.clone(),
			},
			probe,
		)
	}
	fn fails(&mut self) -> bool {
		if self.probe.errors.load(Ordering::SeqCst) > 0 {
			self.probe.calls_after_error.fetch_add(1, Ordering::SeqCst);
		}
		let f = match self.fail_at {
			Some(k) => k <= self.ok_calls,
			None => false,
		};
		if f {
			self.probe.errors.fetch_add(1, Ordering::SeqCst);
			if self.transient {
				self.fail_at = None;
			}
		}
		f
	}
}
impl Drop for ScriptDecoder {
	fn drop(&mut self) {
		if std::thread::panicking() {
			self.probe.dropped_in_panic.store(true, Ordering::SeqCst);
		}
		self.probe.dropped.store(true, Ordering::SeqCst);
	}
}
impl Decoder for ScriptDecoder {
	type Error = ScriptErr;
	fn sample_rate(&self) -> u32 {
		self.sr
	}
	fn num_frames(&self) -> usize {
		self.frames.len()
	}
	fn decode(&mut self) -> Result<Vec<Frame>, ScriptErr> {
		self.probe.decode_calls.fetch_add(1, Ordering::SeqCst);
		if let Some(d) = self.delay {
			std::thread::sleep(d);
		}
		if self.fails() {
			return Err(ScriptErr);
		}
		if self.frames.len() <= self.pos {
			self.probe.errors.fetch_add(1, Ordering::SeqCst);
			return Err(ScriptErr);
		}
		let size = self.packets[self.pkt % self.packets.len().max(1)].max(1);
		let stop = (self.pos + size).min(self.frames.len());
		let v = self.frames[self.pos..stop].to_vec();
		self.pos = stop;
		self.pkt += 1;
		self.ok_calls += 1;
		Ok(v)
	}
	fn seek(&mut self, index: usize) -> Result<usize, ScriptErr> {
		self.probe.seek_calls.fetch_add(1, Ordering::SeqCst);
		if self.fails() {
			return Err(ScriptErr);
		}
		let g = self.gran.max(1);
		let j = index.min(self.frames.len()) / g * g;
		self.pos = j;
		self.ok_calls += 1;
		Ok(j)
	}
}

// ---------------------------------------------------------------------------------------------
// holding the real decoder thread at kira's yield points
// ---------------------------------------------------------------------------------------------

#[derive(Clone, Copy, PartialEq, Eq, Debug)]
enum At {
	Running,
	Top,
	Err,
}
struct GateInner {
	permits: u64,
	arrivals: u64,
	at: At,
	/// never block (free-running thread)
	free: bool,
}
pub struct Gate {
	inner: Mutex<GateInner>,
	cv: Condvar,
}
impl Gate {
	fn new(free: bool) -> Arc<Self> {
		Arc::new(Self {
			inner: Mutex::new(GateInner {
				permits: 0,
				arrivals: 0,
				at: At::Running,
				free,
			}),
			cv: Condvar::new(),
		})
	}
	fn arrive(&self, at: At) {
		let mut g = self.inner.lock().unwrap();
		g.arrivals += 1;
		g.at = at;
		self.cv.notify_all();
		while !g.free && g.permits == 0 {
			g = self.cv.wait(g).unwrap();
		}
		if !g.free {
			g.permits -= 1;
		}
		g.at = At::Running;
	}
	fn arrivals(&self) -> u64 {
		self.inner.lock().unwrap().arrivals
	}
	fn at(&self) -> At {
		self.inner.lock().unwrap().at
	}
	fn set_free(&self) {
		let mut g = self.inner.lock().unwrap();
		g.free = true;
		self.cv.notify_all();
	}
	/// wait until the thread has arrived `n` times in total, or its decoder was dropped
	fn wait_arrivals(&self, n: u64, probe: &DecProbe) {
		let t0 = Instant::now();
		let mut g = self.inner.lock().unwrap();
		while g.arrivals < n && !probe.dropped.load(Ordering::SeqCst) {
			let (g2, _) = self.cv.wait_timeout(g, Duration::from_micros(200)).unwrap();
			g = g2;
			if t0.elapsed() > Duration::from_secs(6) {
				panic!("decoder thread neither reached a gate nor ended");
			}
		}
	}
	/// one gate-to-gate stretch
	fn grant(&self, probe: &DecProbe) {
		let n = {
			let mut g = self.inner.lock().unwrap();
			g.permits += 1;
			self.cv.notify_all();
			g.arrivals + 1
		};
		self.wait_arrivals(n, probe);
	}
}

static PENDING: Mutex<Option<Arc<Gate>>> = Mutex::new(None);
thread_local! {
	/// `None` = this thread has not met a decoder yield point yet; `Some(None)` = it is not one of ours
	static MY_GATE: RefCell<Option<Option<Arc<Gate>>>> = const { RefCell::new(None) };
}
static HOOK: Once = Once::new();

fn install_hook() {
	HOOK.call_once(|| {
		kira::verif_hooks::set_yield_hook(Some(Arc::new(|site: &'static str| {
			let at = match site {
				"decoder.loop.top" => At::Top,
				"decoder.loop.before_error_push" => At::Err,
				_ => return,
			};
			let gate = MY_GATE.with(|m| {
				let mut m = m.borrow_mut();
				if m.is_none() {
					// a thread can only be claimed at its first yield point (right after it was spawned)
					*m = Some(PENDING.lock().unwrap().take());
				}
				m.clone().unwrap()
			});
			if let Some(g) = gate {
				g.arrive(at);
			}
		})));
	});
}

/// spawn the decoder thread of `sched` under a gate; returns once the thread is held at (or, for a free
/// gate, has passed) its first yield point
fn start_gated(sched: HScheduler<ScriptErr>, probe: &DecProbe, free: bool) -> Arc<Gate> {
	install_hook();
	let gate = Gate::new(free);
	*PENDING.lock().unwrap() = Some(gate.clone());
	sched.start();
	gate.wait_arrivals(1, probe);
	gate
}

/// `f()` spawns exactly one decoder thread (inside `manager.play` / `into_sound`); the thread runs free
fn spawn_free<R>(f: impl FnOnce() -> R) -> R {
	install_hook();
	let gate = Gate::new(true);
	*PENDING.lock().unwrap() = Some(gate.clone());
	let r = f();
	let t0 = Instant::now();
	while gate.arrivals() == 0 && PENDING.lock().unwrap().is_some() && t0.elapsed() < Duration::from_secs(2) {
		std::thread::sleep(Duration::from_micros(100));
	}
	*PENDING.lock().unwrap() = None;
	r
}

fn thread_count() -> usize {
	std::fs::read_dir("/proc/self/task").map(|d| d.count()).unwrap_or(0)
}
fn wait_until(limit: Duration, mut cond: impl FnMut() -> bool) -> bool {
	let t0 = Instant::now();
	loop {
		if cond() {
			return true;
		}
		if t0.elapsed() > limit {
			return false;
		}
		std::thread::sleep(Duration::from_micros(500));
	}
}

// ---------------------------------------------------------------------------------------------
// the interpreter
// ---------------------------------------------------------------------------------------------

#[derive(PartialEq, Eq, Clone, Copy)]
enum Place {
	InTrack,
	Abandoned,
	Unloaded,
}

struct Run {
	/// C03 oracle bookkeeping (see `LifeDue` at the end of the file)
	life: LifeDue,
	ssound: Box<dyn Sound>,
	shandle: StaticSoundHandle,
	tsound: Option<Box<dyn Sound>>,
	thandle: Option<StreamingSoundHandle<ScriptErr>>,
	sched: Option<HScheduler<ScriptErr>>,
	gate: Option<Arc<Gate>>,
	probe: Arc<DecProbe>,
	/// `split` succeeded
	have_stream: bool,
	place: Place,
	hand_ended: bool,
	erred: bool,
	// --- what the oracles know ---
	sr: u32,
	/// frames of the slice
	n: usize,
	coding: String,
	slice_start: usize,
	/// C09 premise: no seek / loop command so far, every playback rate value fixed and >= +0.0
	comparable: bool,
	max_rate: f64,
	/// frames pushed into the ring (incl. the pre-seeded one) and an upper bound of the frames popped
	pushed: f64,
	popped_ub: f64,
	/// the error flag has been stored (the thread passed the `before_error_push` gate and reached the top again)
	flag_set: bool,
	err_popped: bool,
	seen_stopped: bool,
	/// index walk: neutral settings, rate 1, no loop, no seeks: last heard index (hand-stepped gapped-subsequence oracle)
	walk: bool,
	last_heard: Option<usize>,
	silent_since_heard: bool,
	/// C18 seek walk (see `SeekWalk`)
	c18: Option<SeekWalk>,
}

/// C18: "streaming the same audio yields the frames of the loaded sound at the same positions, also after any
/// sequence of seeks". Premise: neutral settings, index-coded frames, rate 1 with `sr * dt == 1`, no loop region,
/// immediate start, no pause / stop, the decoder stepped by hand and ahead of the playback. Then the frames heard
/// are, in order, the frames of the loaded sound at positions p, p+1, … from the start position, and — from the
/// moment the decoder takes a seek — at target, target+1, …, where the target of `seek_to(t)` is the frame nearest
/// to t and the target of `seek_by(a)` is the frame nearest to (position reported by the handle) + a.
/// `queue` holds the positions delivered by the decoder and not yet heard.
struct SeekWalk {
	queue: std::collections::VecDeque<usize>,
	/// the position the next delivered frame has to come from
	next: usize,
	ended: bool,
	pending_by: Option<f64>,
	pending_to: Option<f64>,
}

fn show_s(r: &Run) -> String {
	format!("S {} {} {}", state_num(r.shandle.state()), h64(r.shandle.position()), r.ssound.finished() as u8)
}
fn show_t(r: &Run) -> String {
	if !r.have_stream {
		return "T -".to_string();
	}
	let h = match &r.thandle {
		Some(h) => format!("{} {}", state_num(h.state()), h64(h.position())),
		None => "- -".to_string(),
	};
	let f = match (&r.tsound, r.place) {
		(Some(s), Place::InTrack) => (s.finished() as u8).to_string(),
		_ => "-".to_string(),
	};
	format!("T {} {}", h, f)
}
fn show(r: &Run) -> String {
	format!("{} {}", show_s(r), show_t(r))
}
fn frames_str(buf: &[Frame]) -> String {
	let mut s = String::new();
	for f in buf {
		s += &format!(" {} {}", h32(f.left), h32(f.right));
	}
	s
}

fn into_samples(p: PlaybackPosition, sr: u32) -> usize {
	match p {
		PlaybackPosition::Seconds(s) => (s * sr as f64).round() as usize,
		PlaybackPosition::Samples(n) => n,
	}
}

fn fixed_rate(v: &Value<PlaybackRate>) -> Option<f64> {
	match v {
		Value::Fixed(r) => Some(r.0),
		_ => None,
	}
}

fn make(tok: &[&str], ids: &Ids) -> Result<Run, String> {
	let sr = pu(tok[1]) as u32;
	let len = pu(tok[2]) as usize;
	let frames = gen_frames(tok[3], len);
	let start_time = parse_start(tok[5], ids);
	let start_position = parse_pos(tok[6]);
	let loop_region = parse_region(tok[7]);
	let volume: Value<Decibels> = parse_value(tok[8], ids);
	let rate: Value<PlaybackRate> = parse_value(tok[9], ids);
	let panning: Value<Panning> = parse_value(tok[10], ids);
	let fade_in = if tok[11] == "none" { None } else { Some(parse_tween(tok[11], ids)) };
	let packets: Vec<usize> = tok[12].split(',').map(|x| pu(x) as usize).collect();
	let gran = pu(tok[13]) as usize;
	let fail_at = if tok[14] == "none" { None } else { Some(pu(tok[14]) as usize) };
	let mut sdata = StaticSoundData {
		sample_rate: sr,
		frames: frames.clone(),
		settings: StaticSoundSettings {
			start_time,
			start_position,
			loop_region,
			reverse: false,
			volume,
			playback_rate: rate,
			panning,
			fade_in_tween: fade_in,
		},
		slice: None,
	};
	let (dec, probe) = ScriptDecoder::new(frames, sr, packets, gran, fail_at);
	let mut tdata = StreamingSoundData::from_decoder(dec).with_settings(StreamingSoundSettings {
		start_time,
		start_position,
		loop_region,
		volume,
		playback_rate: rate,
		panning,
		fade_in_tween: fade_in,
	});
	if let Some(s) = tok[4].strip_prefix("raw=") {
		let (a, b) = s.split_once(',').unwrap();
		sdata.slice = Some((pu(a) as usize, pu(b) as usize));
		tdata.slice = Some((pu(a) as usize, pu(b) as usize));
	} else if let Some(s) = tok[4].strip_prefix("reg=") {
		sdata = sdata.slice(parse_region(s));
		tdata = tdata.slice(parse_region(s));
	}
	let (slice_start, n) = match sdata.slice {
		Some((a, b)) => (a, b.saturating_sub(a)),
		None => (0, len),
	};
	let (ssound, shandle) = sdata.into_sound().unwrap();
	let r0 = fixed_rate(&rate);
	let neutral = volume == Value::Fixed(Decibels(0.0))
		&& panning == Value::Fixed(Panning(0.0))
		&& fade_in.is_none()
		&& start_time == StartTime::Immediate;
	let mut run = Run {
		ssound,
		shandle,
		tsound: None,
		thandle: None,
		sched: None,
		gate: None,
		probe,
		have_stream: false,
		place: Place::InTrack,
		hand_ended: false,
		erred: false,
		sr,
		n,
		coding: tok[3].to_string(),
		slice_start,
		comparable: matches!(r0, Some(x) if x >= 0.0 && !x.is_sign_negative()),
		max_rate: r0.map(|x| x.abs()).unwrap_or(0.0),
		life: LifeDue::default(),
		pushed: 1.0,
		popped_ub: 0.0,
		flag_set: false,
		err_popped: false,
		seen_stopped: false,
		walk: neutral && (tok[3] == "idx" || tok[3] == "lr") && r0 == Some(1.0) && loop_region.is_none()
			&& into_samples(start_position, sr) < n,
		last_heard: None,
		silent_since_heard: false,
		c18: None,
	};
	if run.walk && fail_at.is_none() {
		run.c18 = Some(SeekWalk {
			queue: Default::default(),
			next: into_samples(start_position, sr),
			ended: false,
			pending_by: None,
			pending_to: None,
		});
	}
	match split(tdata) {
		Ok((sound, handle, sched)) => {
			run.tsound = Some(sound);
			run.thandle = Some(handle);
			run.sched = Some(sched);
			run.have_stream = true;
			Ok(run)
		}
		Err(ScriptErr) => {
			run.erred = true;
			let s = format!("{} T err:sym", show_s(&run));
			// keep the static sound going on its own
			ERR_NEW.with(|e| *e.borrow_mut() = Some(run));
			Err(s)
		}
	}
}
thread_local! {
	static ERR_NEW: RefCell<Option<Run>> = const { RefCell::new(None) };
}

/// slice-relative index heard in an index-coded frame; `Some(None)` = silence; `None` = not a coded frame
fn decode_idx(r: &Run, f: Frame) -> Option<Option<usize>> {
	if f.left == 0.0 && f.right == 0.0 {
		return Some(None);
	}
	let ok = match r.coding.as_str() {
		"idx" => f.right == f.left,
		"lr" => f.right == -f.left,
		_ => false,
	};
	if !ok || f.left < 1.0 || f.left.fract() != 0.0 {
		return None;
	}
	let abs = f.left as usize - 1;
	if abs < r.slice_start || abs - r.slice_start >= r.n {
		return None;
	}
	Some(Some(abs - r.slice_start))
}

/// let a held thread go at the end of a case: stop the sound if that is still possible, otherwise drop it
/// (abandon it): either way the thread ends within 3 gate-to-gate stretches. (On the unrepaired code an
/// abandoned sound's thread never ended: such a thread is left parked at its gate, where it costs no CPU.)
fn cleanup(r: &mut Run) {
	if let Some(g) = r.gate.take() {
		if r.probe.dropped.load(Ordering::SeqCst) {
			return;
		}
		let mut stopped = r.thandle.as_ref().map(|h| h.state() == PlaybackState::Stopped).unwrap_or(false);
		if !stopped {
			if let (Some(s), Some(h), Place::InTrack) = (r.tsound.as_mut(), r.thandle.as_mut(), r.place) {
				h.stop(Tween {
					duration: Duration::ZERO,
					..Default::default()
				});
				s.on_start_processing();
				let mut buf = [Frame::ZERO; 1];
				let info = InfoState::default().build();
				s.process(&mut buf, 1.0, &info);
				stopped = h.state() == PlaybackState::Stopped;
			}
		}
		if stopped {
			g.set_free();
			wait_until(Duration::from_secs(2), || r.probe.dropped.load(Ordering::SeqCst));
		} else {
			r.tsound = None;
			r.place = Place::Abandoned;
			for _ in 0..3 {
				if r.probe.dropped.load(Ordering::SeqCst) {
					break;
				}
				g.grant(&r.probe);
			}
		}
	}
}

fn exec(case: &[String], out: &mut Out) {
	let ids = ids();
	let mut info_state = InfoState::default();
	out.put(case[0].clone());
	let mut run: Option<Run> = None;
	for l in &case[1..] {
		let tok: Vec<&str> = l.split_whitespace().collect();
		match tok[0] {
			"info.clocks" => {
				info_state.parse_clocks(&tok);
				out.put("ok");
				continue;
			}
			"info.mods" => {
				info_state.parse_mods(&tok);
				out.put("ok");
				continue;
			}
			"new" => {
				if let Some(mut old) = run.take() {
					cleanup(&mut old);
				}
				match make(&tok, &ids) {
					Ok(r) => {
						out.put(show(&r));
						if r.thandle.as_ref().unwrap().state() != PlaybackState::Playing {
							out.oracle_fail("stream_new_not_playing", l);
						}
						run = Some(r);
					}
					Err(line) => {
						out.put(line);
						run = ERR_NEW.with(|e| e.borrow_mut().take());
					}
				}
				continue;
			}
			"rt" => {
				rt_scenario(&tok, out, l);
				out.put("ok");
				continue;
			}
			_ => {}
		}
		let r = run.as_mut().expect("op before new");
		match tok[0] {
			"start" => {
				r.ssound.on_start_processing();
				if r.place == Place::InTrack {
					if let Some(s) = r.tsound.as_mut() {
						if s.finished() {
							// what the owning track does: remove_and_add(|s| s.finished())
							r.tsound = None;
							r.place = Place::Unloaded;
						} else {
							s.on_start_processing();
							r.life.read();
						}
					}
				}
				out.put(show(r));
				compare_handles(r, out, l, true);
			}
			"proc" => {
				let len = pu(tok[1]) as usize;
				let dt = p64(tok[2]);
				let info = info_state.build();
				let mut sbuf = vec![Frame::ZERO; len];
				r.ssound.process(&mut sbuf, dt, &info);
				let mut line;
				if let (Some(s), Place::InTrack) = (r.tsound.as_mut(), r.place) {
					let t_state_before = r.thandle.as_ref().map(|h| state_num(h.state()));
					let mut tbuf = vec![Frame::from_mono(f32::from_bits(0x7fc0_4321)); len];
					s.process(&mut tbuf, dt, &info);
					if let Some(what) = r.life.processed(len, dt, r.thandle.as_ref().map(|h| h.state())) {
						out.oracle_fail("stream_fade_step_completes_with_its_tween", format!("{} :: {}", l, what));
					}
					let same = sbuf.iter().zip(tbuf.iter()).all(|(a, b)| {
						a.left.to_bits() == b.left.to_bits() && a.right.to_bits() == b.right.to_bits()
					});
					line = format!(
						"{} F{} X{}",
						show(r),
						frames_str(&tbuf),
						if same { " =".to_string() } else { frames_str(&sbuf) }
					);
					// --- C09: side by side ---
					let need = (len as f64 * r.sr as f64 * r.max_rate * dt).ceil() + 1.0;
					let ahead = r.hand_ended || r.pushed - r.popped_ub - need >= 4.0;
					r.popped_ub += need;
					if !ahead {
						// the premise of C09 ("the decoder keeps ahead") failed once: nothing later is comparable
						r.comparable = false;
					}
					if !(r.comparable && ahead && !r.erred) {
						tick(7, 1);
					}
					if r.comparable && ahead && !r.erred {
						tick(0, 1);
						if tbuf.iter().any(|f| f.left != 0.0 || f.right != 0.0) {
							tick(1, len);
						}
						if !same {
							out.oracle_fail("stream_frames_differ_from_static", l);
						}
						compare_handles(r, out, l, false);
					}
					// --- C18: the frames heard are the loaded sound's frames at the positions played, seeks included ---
					if let Some(mut w) = r.c18.take() {
						if r.sr as f64 * dt == 1.0 && (w.ended || w.queue.len() >= len + 1) {
							tick(9, len);
							let mut ok = true;
							for f in &tbuf {
								let want = w.queue.pop_front();
								if decode_idx(r, *f) != Some(want) {
									ok = false;
									break;
								}
							}
							if ok {
								r.c18 = Some(w);
							} else {
								out.oracle_fail("stream_frames_not_loaded_frames_at_position", l);
							}
						}
						// (otherwise the decoder is not ahead, or the step is not one frame: nothing later is comparable)
					}
					// --- C10 ---
					let all_zero = tbuf.iter().all(|f| f.left == 0.0 && f.right == 0.0);
					let t_state = r.thandle.as_ref().map(|h| state_num(h.state()));
					if r.flag_set {
						tick(3, 1);
						// the error flag was stored before this call: Stopped, silence, finished
						if t_state.map(|s| s != 6).unwrap_or(false) || !all_zero || !r.tsound.as_ref().unwrap().finished() {
							out.oracle_fail("decthread_error_did_not_stop_sound", l);
						}
					}
					if (r.seen_stopped || t_state_before == Some(6)) && !all_zero {
						out.oracle_fail("decthread_audio_after_stopped", l);
					}
					if tbuf.iter().any(|f| f.left.is_nan() || f.right.is_nan()) {
						out.oracle_fail("stream_unwritten_or_nan_frame", l);
					}
					// gapped subsequence (hand-stepped): indices strictly increase, resume within a frame
					if r.walk && r.sr as f64 * dt == 1.0 {
						for f in &tbuf {
							match decode_idx(r, *f) {
								None => {
									out.oracle_fail("decthread_foreign_frame", l);
									r.walk = false;
									break;
								}
								Some(None) => r.silent_since_heard = true,
								Some(Some(i)) => {
									tick(6, 1);
									if let Some(p) = r.last_heard {
										if i <= p {
											out.oracle_fail("decthread_repeated_or_reordered_frame", l);
											r.walk = false;
											break;
										}
										if i > p + 2 || (!r.silent_since_heard && i != p + 1) {
											out.oracle_fail("decthread_skipped_frames", l);
											r.walk = false;
											break;
										}
									}
									r.last_heard = Some(i);
									r.silent_since_heard = false;
								}
							}
						}
					} else if len > 0 {
						r.walk = false;
					}
				} else {
					line = format!("{} F X{}", show(r), frames_str(&sbuf));
				}
				if line.is_empty() {
					line = "?".into();
				}
				out.put(line);
			}
			"dec" => {
				let max = pu(tok[1]) as usize;
				if !r.have_stream || r.hand_ended || r.sched.is_none() {
					out.put("0 none");
				} else {
					let sched = r.sched.as_mut().unwrap();
					let mut n = 0usize;
					let mut last = "none";
					while n < max {
						n += 1;
						// (C18) what the handle reports right now: the reference point of a pending `seek_by`
						let reported = match (&r.c18, &r.thandle) {
							(Some(w), Some(h)) if w.pending_by.is_some() => h.position(),
							_ => 0.0,
						};
						let res = sched.run();
						// (C18) an iteration that did not return early (ring full) took the pending seeks - `seek_by` first,
						// then `seek_to` - and delivered the frame at the position it then stood at
						if !matches!(res, Ok(HNextStep::Wait)) {
							let mut outside = false;
							if let Some(w) = r.c18.as_mut() {
								let mut target = None;
								if let Some(a) = w.pending_by.take() {
									target = Some(((reported + a) * r.sr as f64).round() as usize);
								}
								if let Some(t) = w.pending_to.take() {
									target = Some((t * r.sr as f64).round() as usize);
								}
								if let Some(t) = target {
									tick(10, 1);
									w.next = t;
								}
								if res.is_err() || w.next >= r.n || w.ended {
									// a failing decoder, a seek past the end of the audio, a command after the decoder ended:
									// outside the premise
									outside = true;
								} else {
									w.queue.push_back(w.next);
									w.next += 1;
									if matches!(res, Ok(HNextStep::End)) {
										w.ended = true;
									}
								}
							}
							if outside {
								r.c18 = None;
							}
						}
						match res {
							Ok(HNextStep::Continue) => {
								r.pushed += 1.0;
								last = "cont";
							}
							Ok(HNextStep::Wait) => {
								last = "wait";
								// the ring is full: exactly 16384 frames are queued
								r.popped_ub = r.pushed - 16384.0;
								break;
							}
							Ok(HNextStep::End) => {
								last = "end";
								if r.thandle.as_ref().map(|h| h.state() != PlaybackState::Stopped).unwrap_or(true) {
									r.pushed += 1.0;
								}
								r.hand_ended = true;
								break;
							}
							Err(ScriptErr) => {
								last = "err:sym";
								r.erred = true;
								break;
							}
						}
					}
					out.put(format!("{} {} {}", n, last, show_t(r)));
				}
			}
			"tstart" => {
				if !r.have_stream {
					out.put("none");
				} else if r.hand_ended {
					r.sched = None;
					out.put("ended");
				} else {
					r.c18 = None;
					let sched = r.sched.take().expect("tstart twice");
					r.gate = Some(start_gated(sched, &r.probe, false));
					out.put("ok");
				}
			}
			"tstep" => {
				let n = pu(tok[1]) as usize;
				if !r.have_stream {
					out.put("pc=none");
				} else if r.hand_ended {
					out.put(format!("pc=ended {}", show_t(r)));
				} else {
					let g = r.gate.clone().expect("tstep before tstart");
					let stopped_before = r.thandle.as_ref().map(|h| h.state() == PlaybackState::Stopped).unwrap_or(false);
					let abandoned_before = r.place == Place::Abandoned;
					let gone_before = r.probe.dropped.load(Ordering::SeqCst);
					let mut steps = 0;
					// the thread was released from the `before_error_push` gate and came back to a gate instead of ending
					let mut looped_after_error = false;
					for _ in 0..n {
						if r.probe.dropped.load(Ordering::SeqCst) {
							break;
						}
						let was = g.at();
						g.grant(&r.probe);
						steps += 1;
						if was == At::Err {
							// the stretch after this gate pushes the error and stores the flag (then `break`s)
							r.flag_set = true;
						}
						if r.probe.dropped.load(Ordering::SeqCst) {
							break;
						}
						if was == At::Err {
							looped_after_error = true;
						}
						if g.at() == At::Err {
							r.erred = true;
						}
					}
					let pc = if r.probe.dropped.load(Ordering::SeqCst) {
						if r.probe.dropped_in_panic.load(Ordering::SeqCst) {
							"panicked"
						} else {
							"ended"
						}
					} else if g.at() == At::Err {
						"err"
					} else {
						"top"
					};
					out.put(format!("pc={} {}", pc, show_t(r)));
					// --- C10: a Stopped sound's thread ends within 2 of its gate-to-gate stretches ---
					if stopped_before && !gone_before && (steps >= 2 || pc == "ended") {
						tick(5, 1);
					}
					if stopped_before && steps >= 2 && pc != "ended" {
						out.oracle_fail("decthread_thread_did_not_end_after_stopped", l);
					}
					// --- C10: … and so does the thread of a sound that was dropped (refused by a full track, discarded
					// with its track or manager) ---
					if abandoned_before && !gone_before && steps >= 1 {
						tick(8, 1);
						if pc != "ended" {
							out.oracle_fail("decthread_thread_did_not_end_after_abandoned", l);
						}
					}
					// --- C10: after reporting an error the thread ends: the failing decoder is not called again ---
					if looped_after_error {
						out.oracle_fail("decthread_thread_looped_after_error", l);
					}
				}
			}
			"poperr" => {
				let got = match r.thandle.as_mut() {
					Some(h) => h.pop_error(),
					None => None,
				};
				out.put(if got.is_some() { "sym" } else { "none" });
				if r.thandle.is_some() && r.flag_set && !r.err_popped {
					tick(4, 1);
				}
				if r.thandle.is_some() && r.flag_set && !r.err_popped && got.is_none() {
					out.oracle_fail("decthread_first_error_lost", l);
				}
				if got.is_some() {
					r.err_popped = true;
				}
			}
			"sdrop" => {
				r.c18 = None;
				if r.place == Place::InTrack && r.tsound.is_some() {
					r.tsound = None;
					r.place = Place::Abandoned;
					r.comparable = false;
				}
				out.put(show(r));
			}
			"hdrop" => {
				r.c18 = None;
				r.thandle = None;
				r.comparable = false;
				out.put(show(r));
			}
			_ => {
				let decoder_side = matches!(tok[0], "seekto" | "seekby" | "loop");
				if decoder_side && r.erred {
					out.put("skip");
					continue;
				}
				macro_rules! both {
					($m:ident ( $($a:expr),* )) => {{
						r.shandle.$m($($a),*);
						if let Some(h) = r.thandle.as_mut() { h.$m($($a),*); }
					}};
				}
				match tok[0] {
					"vol" => both!(set_volume(parse_value::<Decibels>(tok[1], &ids), parse_tween(tok[2], &ids))),
					"rate" => {
						let v = parse_value::<PlaybackRate>(tok[1], &ids);
						match fixed_rate(&v) {
							Some(x) if x >= 0.0 && !x.is_sign_negative() => r.max_rate = r.max_rate.max(x),
							_ => r.comparable = false,
						}
						r.walk = false;
						both!(set_playback_rate(v, parse_tween(tok[2], &ids)))
					}
					"pan" => both!(set_panning(parse_value::<Panning>(tok[1], &ids), parse_tween(tok[2], &ids))),
					"loop" => {
						r.comparable = false;
						r.walk = false;
						both!(set_loop_region(parse_region(tok[1])))
					}
					"pause" => both!(pause(parse_tween(tok[1], &ids))),
					"resume" => {
						let st = parse_start(tok[1], &ids);
						if st == StartTime::Immediate {
							both!(resume(parse_tween(tok[2], &ids)))
						} else {
							both!(resume_at(st, parse_tween(tok[2], &ids)))
						}
					}
					"stop" => both!(stop(parse_tween(tok[1], &ids))),
					"seekto" => {
						r.comparable = false;
						r.walk = false;
						if let Some(w) = r.c18.as_mut() {
							w.pending_to = Some(p64(tok[1]));
						}
						both!(seek_to(p64(tok[1])))
					}
					"seekby" => {
						r.comparable = false;
						r.walk = false;
						if let Some(w) = r.c18.as_mut() {
							w.pending_by = Some(p64(tok[1]));
						}
						both!(seek_by(p64(tok[1])))
					}
					_ => panic!("stream: unknown op {}", tok[0]),
				}
				if matches!(tok[0], "vol" | "pan" | "pause" | "resume" | "stop") {
					r.walk = false;
				}
				if r.thandle.is_some() {
					r.life.command(&tok);
				}
				if !matches!(tok[0], "seekto" | "seekby") {
					r.c18 = None;
				}
				out.put(show(r));
			}
		}
		if r.thandle.as_ref().map(|h| h.state() == PlaybackState::Stopped).unwrap_or(false) {
			r.seen_stopped = true;
		}
	}
	if let Some(mut r) = run.take() {
		cleanup(&mut r);
	}
}

/// C09: same state; same `finished()`; positions within one frame while the static sound's current frame
/// is a frame of the audio
fn compare_handles(r: &mut Run, out: &mut Out, l: &str, at_start: bool) {
	if !(r.comparable && !r.erred && r.have_stream && r.hand_ended_or_ahead() && r.gate.is_none()) {
		return;
	}
	let Some(h) = r.thandle.as_ref() else { return };
	if state_num(h.state()) != state_num(r.shandle.state()) {
		out.oracle_fail("stream_state_differs_from_static", l);
	}
	if let (Some(s), Place::InTrack) = (r.tsound.as_ref(), r.place) {
		if s.finished() != r.ssound.finished() {
			out.oracle_fail("stream_finished_differs_from_static", l);
		}
	}
	if at_start && r.place == Place::InTrack {
		let ps = r.shandle.position() * r.sr as f64;
		let pt = h.position() * r.sr as f64;
		let idx = ps.round();
		if idx >= 0.0 && (idx as usize) < r.n && r.hand_ended_or_ahead() {
			tick(2, 1);
			if !(pt >= ps - 1e-6 && pt < ps + 1.0 + 1e-6) {
				out.oracle_fail("stream_position_off_by_more_than_a_frame", l);
			}
		}
	}
}
impl Run {
	fn hand_ended_or_ahead(&self) -> bool {
		self.hand_ended || self.pushed - self.popped_ub >= 4.0
	}
}

// ---------------------------------------------------------------------------------------------
// real, free-running decoder threads (implementation side only)
// ---------------------------------------------------------------------------------------------

const RT_SR: u32 = 1024;
/// frame k carries (k+1)/65536 on both channels (exact, inside the renderer's [-1, 1] clamp)
fn rt_frames(n: usize) -> Arc<[Frame]> {
	(0..n).map(|k| Frame::from_mono((k + 1) as f32 / 65536.0)).collect()
}
fn rt_decode(v: f32) -> Option<Option<usize>> {
	if v == 0.0 {
		return Some(None);
	}
	let x = v * 65536.0;
	if x < 1.0 || x.fract() != 0.0 {
		return None;
	}
	Some(Some(x as usize - 1))
}
fn instant() -> Tween {
	Tween {
		duration: Duration::ZERO,
		..Default::default()
	}
}

fn rt_scenario(tok: &[&str], out: &mut Out, l: &str) {
	let name = tok[1];
	let arg = |i: usize, d: u64| -> u64 { tok.get(i).map(|s| pu(s)).unwrap_or(d) };
	let mk_mgr = |cap: usize| {
		probe::manager(Capacities::default(), 64, RT_SR, MainTrackBuilder::new().sound_capacity(cap))
	};
	let base = thread_count();
	match name {
		// the sound plays to its end: Stopped, unloaded, thread gone, decoder released
		"finish" => {
			let n = arg(2, 300) as usize;
			let pkt = arg(3, 7) as usize;
			let chunk = arg(4, 32) as usize;
			let mut mgr = mk_mgr(8);
			let (dec, probe) = ScriptDecoder::new(rt_frames(n), RT_SR, vec![pkt], 4, None);
			let h = spawn_free(|| mgr.play(StreamingSoundData::from_decoder(dec)).unwrap());
			let mut heard: Vec<usize> = vec![];
			let mut foreign = false;
			for _ in 0..(n / chunk + 40) {
				std::thread::sleep(Duration::from_millis(1));
				let o = mgr.backend_mut().callback(chunk, 2);
				for f in o.chunks(2) {
					match rt_decode(f[0]) {
						None => foreign = true,
						Some(Some(i)) => heard.push(i),
						Some(None) => {}
					}
				}
				if h.state() == PlaybackState::Stopped {
					break;
				}
			}
			if h.state() != PlaybackState::Stopped {
				out.oracle_fail("decthread_finished_sound_not_stopped", l);
			}
			mgr.backend_mut().callback(chunk, 2);
			if !wait_until(Duration::from_millis(1500), || probe.dropped.load(Ordering::SeqCst)) {
				out.oracle_fail("decthread_thread_never_ends", format!("finished {}", l));
			}
			if foreign || heard.windows(2).any(|w| w[1] <= w[0]) {
				out.oracle_fail("decthread_not_a_gapped_subsequence", l);
			}
			// (a decoder that keeps up lets every frame be heard; whether this one kept up is a matter of OS scheduling,
			// so the count is only reported)
			if std::env::var("KV_ORACLE_STATS").is_ok() {
				eprintln!("rt finish: heard {} of {}", heard.len(), n);
			}
			drop(mgr);
			if !wait_until(Duration::from_millis(1500), || thread_count() <= base) {
				out.oracle_fail("decthread_thread_count_above_baseline", format!("finished {}", l));
			}
		}
		// the sound is stopped through its handle (a long sound: the decoder thread is asleep on a full ring)
		"stop" => {
			let fade_ms = arg(2, 0);
			let mut mgr = mk_mgr(8);
			let (dec, probe) = ScriptDecoder::new(rt_frames(60_000), RT_SR, vec![64], 8, None);
			let mut h = spawn_free(|| mgr.play(StreamingSoundData::from_decoder(dec)).unwrap());
			for _ in 0..4 {
				std::thread::sleep(Duration::from_millis(2));
				mgr.backend_mut().callback(64, 2);
			}
			h.stop(Tween {
				duration: Duration::from_millis(fade_ms),
				..Default::default()
			});
			let mut stopped = false;
			for _ in 0..(fade_ms * 1024 / 64 / 1000 + 6) {
				mgr.backend_mut().callback(64, 2);
				if h.state() == PlaybackState::Stopped {
					stopped = true;
					break;
				}
			}
			if !stopped {
				out.oracle_fail("decthread_stop_did_not_stop", l);
			}
			if !wait_until(Duration::from_millis(1500), || probe.dropped.load(Ordering::SeqCst)) {
				out.oracle_fail("decthread_thread_never_ends", format!("stopped {}", l));
			}
			drop(mgr);
			if !wait_until(Duration::from_millis(1500), || thread_count() <= base) {
				out.oracle_fail("decthread_thread_count_above_baseline", format!("stopped {}", l));
			}
		}
		// the decoder fails at its k-th call (sticky or once): Stopped, unloaded, silence, error on the handle,
		// thread gone; and no decoder calls after the first error
		"error" => {
			let k = arg(2, 3) as usize;
			let transient = arg(3, 0) == 1;
			let with_seek = arg(4, 0) == 1;
			let mut mgr = mk_mgr(8);
			let (mut dec, probe) = ScriptDecoder::new(rt_frames(40_000), RT_SR, vec![16], 8, Some(k));
			dec.transient = transient;
			let played = spawn_free(|| mgr.play(StreamingSoundData::from_decoder(dec)));
			let mut h = match played {
				Ok(h) => h,
				Err(_) => {
					// k = 0: the initial seek failed inside `split`; no thread was spawned
					if k != 0 {
						out.oracle_fail("decthread_play_failed", l);
					}
					if !wait_until(Duration::from_millis(500), || probe.dropped.load(Ordering::SeqCst)) {
						out.oracle_fail("decthread_decoder_not_released", l);
					}
					return;
				}
			};
			let mut stopped_at = None;
			for i in 0..60 {
				if with_seek && i == 2 {
					h.seek_to(3.0);
				}
				std::thread::sleep(Duration::from_millis(2));
				let o = mgr.backend_mut().callback(32, 2);
				if let Some(_) = stopped_at {
					if o.iter().any(|v| *v != 0.0) {
						out.oracle_fail("decthread_audio_after_stopped", l);
					}
				}
				if stopped_at.is_none() && h.state() == PlaybackState::Stopped {
					stopped_at = Some(i);
				}
				if stopped_at.map(|s| i >= s + 3).unwrap_or(false) {
					break;
				}
			}
			let errors = probe.errors.load(Ordering::SeqCst);
			if errors == 0 {
				// the failing call was never reached (cannot happen with these sizes)
				out.oracle_fail("decthread_error_not_reached", l);
			} else {
				if stopped_at.is_none() {
					out.oracle_fail("decthread_error_did_not_stop_sound", l);
				}
				if h.pop_error().is_none() {
					out.oracle_fail("decthread_first_error_lost", l);
				}
				if !wait_until(Duration::from_millis(1500), || probe.dropped.load(Ordering::SeqCst)) {
					out.oracle_fail("decthread_thread_never_ends", format!("failed {}", l));
				}
				let after = probe.calls_after_error.load(Ordering::SeqCst);
				if after > 0 {
					out.oracle_fail("decthread_decoder_called_after_error", format!("{} calls=many", l));
				}
			}
			drop(mgr);
			if !wait_until(Duration::from_millis(1500), || thread_count() <= base) {
				out.oracle_fail("decthread_thread_count_above_baseline", format!("failed {}", l));
			}
		}
		// `play` on a full track: `into_sound` has already spawned the thread; sound and handle are dropped
		"reject" => {
			let mut mgr = mk_mgr(1);
			let filler = StaticSoundData {
				sample_rate: RT_SR,
				frames: rt_frames(50_000),
				settings: StaticSoundSettings::default(),
				slice: None,
			};
			let _fh = mgr.play(filler).unwrap();
			mgr.backend_mut().callback(16, 2);
			let (dec, probe) = ScriptDecoder::new(rt_frames(40_000), RT_SR, vec![16], 8, None);
			let res = spawn_free(|| mgr.play(StreamingSoundData::from_decoder(dec)));
			if res.is_ok() {
				out.oracle_fail("decthread_full_track_accepted_sound", l);
			}
			drop(res);
			for _ in 0..4 {
				std::thread::sleep(Duration::from_millis(2));
				mgr.backend_mut().callback(16, 2);
			}
			if !wait_until(Duration::from_millis(arg(2, 400)), || probe.dropped.load(Ordering::SeqCst)) {
				out.oracle_fail("decthread_thread_never_ends", format!("rejected_by_full_track threads=+{} {}", thread_count().saturating_sub(base), l));
			} else if !wait_until(Duration::from_millis(1500), || thread_count() <= base) {
				out.oracle_fail("decthread_thread_count_above_baseline", format!("rejected_by_full_track {}", l));
			}
			drop(mgr);
		}
		// the sound's sub-track is dropped (removed from the mixer at the next callback; kira frees a removed
		// track — and with it its sounds — on the gameplay thread, the next time a sub-track is added to the same
		// parent or when the manager goes), the handle too
		"trackdrop" => {
			let keep_handle = arg(2, 0) == 1;
			let mut mgr = mk_mgr(8);
			let mut track = mgr.add_sub_track(TrackBuilder::new()).unwrap();
			let (dec, probe) = ScriptDecoder::new(rt_frames(40_000), RT_SR, vec![16], 8, None);
			let h = spawn_free(|| track.play(StreamingSoundData::from_decoder(dec)).unwrap());
			for _ in 0..3 {
				std::thread::sleep(Duration::from_millis(2));
				mgr.backend_mut().callback(16, 2);
			}
			drop(track);
			let h = if keep_handle { Some(h) } else { None };
			for _ in 0..4 {
				std::thread::sleep(Duration::from_millis(2));
				mgr.backend_mut().callback(16, 2);
			}
			// the removed track is destroyed here (the unused-resource queue is drained before the insert)
			let other = mgr.add_sub_track(TrackBuilder::new()).unwrap();
			if !wait_until(Duration::from_millis(arg(3, 400)), || probe.dropped.load(Ordering::SeqCst)) {
				out.oracle_fail("decthread_thread_never_ends", format!("discarded_with_track threads=+{} {}", thread_count().saturating_sub(base), l));
			} else if !wait_until(Duration::from_millis(1500), || thread_count() <= base) {
				out.oracle_fail("decthread_thread_count_above_baseline", format!("discarded_with_track {}", l));
			}
			drop(other);
			drop(h);
			drop(mgr);
		}
		// the manager is dropped while the sound plays
		"mgrdrop" => {
			let mut mgr = mk_mgr(8);
			let (dec, probe) = ScriptDecoder::new(rt_frames(40_000), RT_SR, vec![16], 8, None);
			let h = spawn_free(|| mgr.play(StreamingSoundData::from_decoder(dec)).unwrap());
			for _ in 0..3 {
				std::thread::sleep(Duration::from_millis(2));
				mgr.backend_mut().callback(16, 2);
			}
			drop(mgr);
			drop(h);
			if !wait_until(Duration::from_millis(arg(2, 400)), || probe.dropped.load(Ordering::SeqCst)) {
				out.oracle_fail("decthread_thread_never_ends", format!("discarded_with_manager threads=+{} {}", thread_count().saturating_sub(base), l));
			} else if !wait_until(Duration::from_millis(1500), || thread_count() <= base) {
				out.oracle_fail("decthread_thread_count_above_baseline", format!("discarded_with_manager {}", l));
			}
		}
		// the decoder fails while the sound's track is paused. A paused track does not call `process` on its
		// sounds, so the error is only turned into Stopped when the track resumes (every state change of a sound
		// that needs `process` waits for that, a fade-out started by `stop()` as well) — but the decoder thread must
		// not wait for it: it reports the error, ends and releases the decoder at once, and never calls the failing
		// decoder again (before the repair it called it in a tight loop for as long as the pause lasted)
		"errpaused" => {
			let mut mgr = mk_mgr(8);
			let mut track = mgr.add_sub_track(TrackBuilder::new()).unwrap();
			track.pause(instant());
			mgr.backend_mut().callback(16, 2);
			mgr.backend_mut().callback(16, 2);
			let (dec, probe) = ScriptDecoder::new(rt_frames(40_000), RT_SR, vec![16], 8, Some(arg(2, 2) as usize));
			let mut h = spawn_free(|| track.play(StreamingSoundData::from_decoder(dec)).unwrap());
			for _ in 0..10 {
				std::thread::sleep(Duration::from_millis(2));
				mgr.backend_mut().callback(16, 2);
			}
			let c0 = probe.calls();
			std::thread::sleep(Duration::from_millis(30));
			let c1 = probe.calls();
			if probe.errors.load(Ordering::SeqCst) == 0 {
				out.oracle_fail("decthread_error_not_reached", l);
			}
			if c1 - c0 > 200 {
				out.oracle_fail("decthread_busy_spin_after_error", format!("paused_track calls_in_30ms=many {}", l));
			}
			if probe.calls_after_error.load(Ordering::SeqCst) > 0 {
				out.oracle_fail("decthread_decoder_called_after_error", format!("paused_track {} calls=many", l));
			}
			if !wait_until(Duration::from_millis(1500), || probe.dropped.load(Ordering::SeqCst)) {
				out.oracle_fail("decthread_thread_never_ends", format!("failed_on_paused_track {}", l));
			} else if !wait_until(Duration::from_millis(1500), || thread_count() <= base) {
				out.oracle_fail("decthread_thread_count_above_baseline", format!("failed_on_paused_track {}", l));
			}
			if h.pop_error().is_none() {
				out.oracle_fail("decthread_first_error_lost", l);
			}
			// resuming the track lets the sound notice the error; then everything winds down
			track.resume(instant());
			for _ in 0..6 {
				std::thread::sleep(Duration::from_millis(1));
				mgr.backend_mut().callback(16, 2);
			}
			if h.state() != PlaybackState::Stopped {
				out.oracle_fail("decthread_error_did_not_stop_sound", format!("after_track_resume {}", l));
			}
			if !wait_until(Duration::from_millis(1500), || probe.dropped.load(Ordering::SeqCst)) {
				out.oracle_fail("decthread_thread_never_ends", format!("failed_after_track_resume {}", l));
			}
			drop(mgr);
		}
		// the decoder fails while the sound waits for a clock that is never started: `process` runs and its
		// first statement turns the error into Stopped
		"errwaiting" => {
			let mut mgr = mk_mgr(8);
			let clock = mgr.add_clock(kira::clock::ClockSpeed::TicksPerSecond(1.0)).unwrap();
			let (dec, probe) = ScriptDecoder::new(rt_frames(40_000), RT_SR, vec![16], 8, Some(arg(2, 2) as usize));
			let data = StreamingSoundData::from_decoder(dec).start_time(clock.time() + 4);
			let mut h = spawn_free(|| mgr.play(data).unwrap());
			for _ in 0..10 {
				std::thread::sleep(Duration::from_millis(2));
				mgr.backend_mut().callback(16, 2);
			}
			if h.state() != PlaybackState::Stopped {
				out.oracle_fail("decthread_error_did_not_stop_sound", format!("waiting_for_clock {}", l));
			}
			if h.pop_error().is_none() {
				out.oracle_fail("decthread_first_error_lost", l);
			}
			if !wait_until(Duration::from_millis(1500), || probe.dropped.load(Ordering::SeqCst)) {
				out.oracle_fail("decthread_thread_never_ends", format!("failed_while_waiting {}", l));
			}
			drop(mgr);
		}
		// a slow decoder: silence in between, never repeated / reordered / foreign frames, resumes within a frame
		"slow" => {
			let n = arg(2, 400) as usize;
			let delay_us = arg(3, 1500);
			let mut mgr = mk_mgr(8);
			let (mut dec, probe) = ScriptDecoder::new(rt_frames(n), RT_SR, vec![8], 4, None);
			dec.delay = Some(Duration::from_micros(delay_us));
			let h = spawn_free(|| mgr.play(StreamingSoundData::from_decoder(dec)).unwrap());
			let mut last: Option<usize> = None;
			let mut silent = false;
			let mut gaps = 0;
			let mut bad: Option<&'static str> = None;
			for _ in 0..4000 {
				std::thread::sleep(Duration::from_micros(300));
				let o = mgr.backend_mut().callback(16, 2);
				for f in o.chunks(2) {
					match rt_decode(f[0]) {
						None => bad = Some("decthread_foreign_frame"),
						Some(None) => {
							if last.is_some() && !silent {
								gaps += 1;
							}
							silent = true;
						}
						Some(Some(i)) => {
							if f[1] != f[0] {
								bad = Some("decthread_foreign_frame");
							}
							if let Some(p) = last {
								if i <= p {
									bad = Some("decthread_repeated_or_reordered_frame");
								} else if i > p + 2 || (!silent && i != p + 1) {
									bad = Some("decthread_skipped_frames");
									if std::env::var("KV_ORACLE_STATS").is_ok() {
										eprintln!("rt slow: heard {} after {} (silence in between: {})", i, p, silent);
									}
								}
							}
							last = Some(i);
							silent = false;
						}
					}
				}
				if h.state() == PlaybackState::Stopped {
					break;
				}
			}
			if let Some(b) = bad {
				out.oracle_fail(b, l);
			}
			if h.state() != PlaybackState::Stopped || last.map(|x| x + 3 < n).unwrap_or(true) {
				out.oracle_fail("decthread_slow_sound_did_not_play_to_the_end", format!("{} last={:?} gaps={}", l, last, gaps));
			}
			mgr.backend_mut().callback(16, 2);
			if !wait_until(Duration::from_millis(1500), || probe.dropped.load(Ordering::SeqCst)) {
				out.oracle_fail("decthread_thread_never_ends", format!("finished_slow {}", l));
			}
			if std::env::var("KV_ORACLE_STATS").is_ok() {
				eprintln!("rt slow: gaps={} last={:?}", gaps, last);
			}
			drop(mgr);
		}
		_ => panic!("stream: unknown rt scenario {}", name),
	}
}

pub fn run(ops: &[String]) -> Vec<String> {
	let trace = run_cases(ops, Some(Duration::from_secs(30)), exec);
	if std::env::var("KV_ORACLE_STATS").is_ok() {
		for (i, n) in CHECK_NAMES.iter().enumerate() {
			eprintln!("oracle-premise {} {}", n, CHECKS[i].load(Ordering::Relaxed));
		}
	}
	trace
}

// ---------------------------------------------------------------------------------------------
// generators
// ---------------------------------------------------------------------------------------------

fn gen_packets(rng: &mut Rng) -> String {
	match rng.below(8) {
		0 => "1".to_string(),
		1 => "3".to_string(),
		2 => "1024".to_string(),
		3 => format!("{}", 1 + rng.below(40)),
		4 => "1,7,2".to_string(),
		5 => "100000".to_string(),
		_ => {
			let k = 2 + rng.below(3);
			(0..k).map(|_| (1 + rng.below(24)).to_string()).collect::<Vec<_>>().join(",")
		}
	}
}
/// packet sizes for long sounds: the twin's decoded chunk is a list (a frame lookup costs its offset in the chunk),
/// so the one-packet-holds-the-whole-file shape is left to the short sounds (and to the thorough tier)
fn gen_packets_long(rng: &mut Rng, thorough: bool) -> String {
	loop {
		let p = gen_packets(rng);
		if p != "100000" || (thorough && rng.chance(1, 2)) {
			return p;
		}
	}
}
fn gen_gran(rng: &mut Rng) -> u64 {
	match rng.below(8) {
		0 | 1 => 1,
		2 => 2,
		3 => 3,
		4 => 8,
		5 => 64,
		_ => 1 + rng.below(64),
	}
}
fn gen_nonneg_rate(rng: &mut Rng) -> f64 {
	match rng.below(12) {
		0..=4 => 1.0,
		5 => 0.5,
		6 => 2.0,
		7 => 1.0 / 3.0,
		8 => std::f64::consts::SQRT_2,
		9 => 0.0,
		10 => rng.uniform(0.0, 4.0),
		_ => 3.7,
	}
}

/// suite `stream`: C09 — the decoder keeps ahead (`dec` before every callback), mostly no seeks
fn gen_stream_case(rng: &mut Rng, out: &mut Vec<String>, stats: &mut Stats) {
	let mut sh = gen_shape(rng);
	let big = rng.chance(1, 150);
	if big {
		// a sound longer than the ring
		sh.len = 16_384 + rng.below(3000);
		sh.slice = None;
		sh.n = sh.len;
	}
	let (sr, n) = (sh.sr, sh.n);
	let kind = rng.below(10);
	// kinds: 0-2 neutral index walks at rate 1, 3-8 anything with rates >= 0, 9 anything at all (negative rates, seeks)
	let plain = kind <= 2;
	let wild = kind == 9;
	stats.hit(if plain { "case_plain" } else if wild { "case_wild" } else { "case_free" });
	let coding = if plain {
		rng.pick(&["idx", "idx", "lr"]).to_string()
	} else {
		match rng.below(5) {
			0 => "idx".to_string(),
			1 => "lr".to_string(),
			2 => format!("dc={}", o32(rng.pick(&[1.0f32, 0.5, -0.25]))),
			_ => format!("rnd={}", rng.below(1000)),
		}
	};
	let dt = if plain { 1.0 / sr as f64 } else { gen_dt(rng, sr) };
	let chunk_secs = dt * 8.0;
	let start = match rng.below(8) {
		0..=3 => 0,
		4 => n,
		5 => n + 1,
		_ => rng.below(n + 1),
	};
	let lp = if rng.chance(2, 5) { gen_valid_loop(rng, n, sr) } else { "none".to_string() };
	let rate0 = if plain { 1.0 } else { gen_nonneg_rate(rng) };
	let rate = if wild && rng.chance(1, 2) {
		crate::suites::static_sound::gen_rate_value(rng)
	} else {
		format!("fix:{}", o64(rate0))
	};
	let neutral = plain || rng.chance(1, 2);
	let start_time = if plain { "imm".to_string() } else { gen_start_time(rng, chunk_secs) };
	let fade_in = if plain || rng.chance(3, 4) { "none".to_string() } else { gen_life_tween(rng, chunk_secs) };
	if rng.chance(1, 3) {
		out.push(gen_info_clocks(rng));
	}
	if rng.chance(1, 6) {
		out.push(format!("info.mods 3 {} {} {}", o64(rng.uniform(-0.5, 1.5)), o64(0.5), o64(1.0)));
	}
	out.push(format!(
		"new {} {} {} {} {} {} {} {} {} {} {} {} {} none",
		sr,
		sh.len,
		coding,
		fmt_slice(rng, &sh),
		start_time,
		fmt_pos(rng, start, sr),
		lp,
		gen_vol_value(rng, neutral),
		rate,
		gen_pan_value(rng, neutral),
		fade_in,
		gen_packets(rng),
		gen_gran(rng)
	));
	stats.hit("new");
	let callbacks = if rng.chance(1, 2) {
		rng.range(3, 10).max(((n.min(200) + 12) / 4) as i64).min(60)
	} else {
		rng.range(3, 16)
	};
	let cmd_rate = if plain { rng.pick(&[0u64, 0, 6]) } else { rng.pick(&[0u64, 3, 3, 2]) };
	// pace: how far the hand-stepped decoder runs before each callback
	let pace = rng.below(10);
	let mut max_rate: f64 = 4.0;
	for cb in 0..callbacks {
		if cmd_rate > 0 {
			while rng.chance(1, cmd_rate) {
				let line = match rng.below(20) {
					0..=3 => format!("pause {}", gen_life_tween(rng, chunk_secs)),
					4..=6 => format!("resume imm {}", gen_life_tween(rng, chunk_secs)),
					7 => format!("resume del:{} {}", (chunk_secs * rng.uniform(0.1, 3.0) * 1e9) as u64, gen_life_tween(rng, chunk_secs)),
					8 => format!(
						"resume clk:{}:{}:{} {}",
						rng.below(MAX_IDS as u64),
						rng.below(4),
						o64(0.0),
						gen_life_tween(rng, chunk_secs)
					),
					9 | 10 => format!("stop {}", gen_life_tween(rng, chunk_secs)),
					11 if wild => format!("seekto {}", o64(rng.uniform(-0.5, (n + 2) as f64) / sr as f64)),
					12 if wild => format!("seekby {}", o64(rng.uniform(-3.0, 3.0) / sr as f64)),
					13 if wild => format!("loop {}", if rng.chance(1, 4) { "none".to_string() } else { gen_valid_loop(rng, n, sr) }),
					14 | 11 | 12 => {
						let r = gen_nonneg_rate(rng);
						max_rate = max_rate.max(r);
						format!("rate fix:{} {}", o64(r), gen_tween(rng))
					}
					15 | 13 => format!("vol {} {}", gen_vol_value(rng, false), gen_tween(rng)),
					16 => format!("pan {} {}", gen_pan_value(rng, false), gen_tween(rng)),
					17 => gen_info_clocks(rng),
					18 => {
						// a quick toggle: both commands are read by the same on_start_processing
						let a = format!("pause {}", gen_life_tween(rng, chunk_secs));
						let b = format!("resume imm {}", gen_life_tween(rng, chunk_secs));
						stats.hit("toggle_pair");
						if rng.chance(1, 2) {
							out.push(a);
							b
						} else {
							out.push(b);
							a
						}
					}
					_ => format!("pause {}", gen_life_tween(rng, chunk_secs)),
				};
				stats.hit(line.split(' ').next().unwrap());
				out.push(line);
			}
		}
		let procs = if rng.chance(1, 5) { 2 } else { 1 };
		let lens: Vec<u64> = (0..procs).map(|_| gen_chunk(rng)).collect();
		let need: f64 = lens.iter().map(|l| (*l as f64 * sr as f64 * max_rate * dt).ceil() + 2.0).sum();
		let budget = match pace {
			// exactly what is needed (+ the 4-frame window), generous, or "until Wait/End"
			0..=3 => need as u64 + 6,
			4..=7 => need as u64 + 6 + rng.below(200),
			8 if cb == 0 && (big || (n < 600 && lp == "none")) => 40_000,
			_ => need as u64 + 40,
		};
		out.push(format!("dec {}", budget.min(40_000)));
		stats.hit("dec");
		out.push("start".to_string());
		stats.hit("start");
		for len in lens {
			out.push(format!("proc {} {}", len, o64(dt)));
			stats.hit("proc");
			stats.add("frames", len);
		}
	}
}

/// the generator's own picture of a hand-stepped neutral stream at one frame per output frame: the positions
/// queued in the frame ring (the ring also holds the frame heard last, so it is full at `RING - 1` queued
/// positions), the position the decoder stands at, the frame the handle reports
struct GenWalk {
	n: u64,
	queue: std::collections::VecDeque<u64>,
	next: u64,
	cur: u64,
	ended: bool,
	pend_by: Option<i64>,
	pend_to: Option<u64>,
	pops: u64,
}
const RING: usize = 16_384;
impl GenWalk {
	fn new(n: u64, start: u64) -> Self {
		Self {
			n,
			queue: Default::default(),
			next: start,
			cur: start,
			ended: false,
			pend_by: None,
			pend_to: None,
			pops: 0,
		}
	}
	fn dec(&mut self, budget: u64) {
		for _ in 0..budget {
			if self.ended || self.queue.len() + 1 >= RING {
				return;
			}
			if let Some(a) = self.pend_by.take() {
				self.next = (self.cur as i64 + a).max(0) as u64;
			}
			if let Some(t) = self.pend_to.take() {
				self.next = t;
			}
			self.queue.push_back(self.next);
			self.next += 1;
			if self.next >= self.n {
				self.ended = true;
			}
		}
	}
	fn start(&mut self) {
		if let Some(f) = self.queue.front() {
			self.cur = *f;
		}
	}
	fn proc(&mut self, len: u64) {
		for _ in 0..len {
			if self.queue.pop_front().is_some() {
				self.pops += 1;
			}
		}
	}
}

/// a sample rate with `sr * (1 / sr) == 1.0` exactly (one source frame per output frame, fraction 0)
fn gen_exact_sr(rng: &mut Rng) -> u64 {
	loop {
		let sr = rng.pick(&[1u64, 1, 2, 4, 8, 10, 1000, 44100, 48000, 22050, 96000]);
		if sr as f64 * (1.0 / sr as f64) == 1.0 {
			return sr;
		}
	}
}

/// C18 seek walks (and, with `long`, C09/C18 long streams): a neutral index-coded stream at rate 1, the decoder
/// `lead` frames ahead of the playback (0 = tight, `RING` = as far as the ring allows), `seek_to` / `seek_by`
/// every few callbacks while the decoder is ahead, every seek target inside the audio. With `long` the sound is
/// longer than two frame rings and is played until the ring's read window has passed the physical end of the
/// ring buffer twice.
fn gen_seekwalk_case(rng: &mut Rng, out: &mut Vec<String>, stats: &mut Stats, long: bool, lead: u64, seeks: bool, thorough: bool) {
	let sr = gen_exact_sr(rng);
	let dt = 1.0 / sr as f64;
	let full = lead >= RING as u64;
	let start = if rng.chance(1, 3) { rng.below(300) } else { 0 };
	let n = if long {
		2 * RING as u64 + 400 + start + rng.below(3000)
	} else if full {
		RING as u64 + 3000 + rng.below(3000)
	} else {
		2500 + rng.below(3000)
	};
	out.push(format!(
		"new {} {} {} none imm {} none fix:{} fix:{} fix:{} none {} {} none",
		sr,
		n,
		rng.pick(&["idx", "idx", "lr"]),
		fmt_pos(rng, start, sr),
		o32(0.0),
		o64(1.0),
		o32(0.0),
		if long || full { gen_packets_long(rng, thorough) } else { gen_packets(rng) },
		gen_gran(rng)
	));
	stats.hit("new");
	stats.hit(if long { "case_long_walk" } else { "case_seek_walk" });
	let mut sim = GenWalk::new(n, start);
	let goal_pops = 2 * RING as u64 + 100;
	let callbacks = if long { u64::MAX } else { 6 + rng.below(10) };
	let mut cb = 0;
	while cb < callbacks && !(long && sim.pops >= goal_pops) && !sim.ended {
		cb += 1;
		if seeks && rng.chance(1, if long { 6 } else { 2 }) {
			if rng.chance(1, 2) {
				// relative: the reference point is the frame the handle reports (`cur`), not where the decoder stands
				let a = match rng.below(6) {
					0 => -(rng.below(40) as i64),
					1 => rng.below(40) as i64,
					2 => -(sim.cur as i64) - rng.below(3) as i64,
					3 => -(rng.below(if long { 6000 } else { 900 }) as i64),
					_ => rng.below(if long { 2500 } else { 500 }) as i64,
				};
				if sim.cur as i64 + a < n as i64 - 2 {
					out.push(format!("seekby {}", o64(a as f64 / sr as f64)));
					stats.hit("seekby");
					sim.pend_by = Some(a);
				}
			} else {
				let t = match rng.below(5) {
					0 => 0,
					1 => sim.cur,
					2 => sim.next.min(n - 2),
					_ => rng.below(n - 2),
				};
				out.push(format!("seekto {}", o64(t as f64 / sr as f64)));
				stats.hit("seekto");
				sim.pend_to = Some(t);
			}
		}
		let len = if long {
			// (chunks and leads are kept moderate: the twin's ring is a list, every push costs its length)
			match rng.below(6) {
				0 => 1 + rng.below(64),
				1 => 1024,
				_ => 64 + rng.below(900),
			}
		} else {
			match rng.below(4) {
				0 => gen_chunk(rng),
				_ => 8 + rng.below(120),
			}
		};
		// what the decoder is given: enough for this callback (+ the window), plus the lead while it is being built up
		let have = sim.queue.len() as u64;
		let (budget, pushes) = if full {
			(40_000, (RING as u64 - 1).saturating_sub(have))
		} else {
			let b = (len + 2 + lead).saturating_sub(have).max(rng.below(3));
			(b, b)
		};
		// the decoder must not reach the end of the data before the closing phase (a decoder that reached the end
		// of its data takes no more commands): send it back in time
		let target_next = match (sim.pend_to, sim.pend_by) {
			(Some(t), _) => t,
			(None, Some(a)) => (sim.cur as i64 + a).max(0) as u64,
			_ => sim.next,
		};
		if target_next + pushes + 2 >= n {
			let t = rng.below(if long { 3000 } else { 300 });
			out.push(format!("seekto {}", o64(t as f64 / sr as f64)));
			stats.hit("seekto");
			stats.hit("seekto_keepalive");
			sim.pend_to = Some(t);
		}
		out.push(format!("dec {}", budget));
		stats.hit("dec");
		sim.dec(budget);
		out.push("start".to_string());
		stats.hit("start");
		sim.start();
		let len = len.min((sim.queue.len() as u64).saturating_sub(1));
		out.push(format!("proc {} {}", len, o64(dt)));
		stats.hit("proc");
		stats.add("frames", len);
		sim.proc(len);
	}
	// closing phase: one case in three plays the sound out to its end (Stopped, unloaded)
	if rng.chance(1, 3) {
		let mut guard = 0;
		while !(sim.ended && sim.queue.is_empty()) && guard < 400 {
			guard += 1;
			let len = if long { 1024 } else { 64 + rng.below(64) };
			// (a modest lead: the twin's ring is a list, every push costs its length)
			let budget = (len + 2 + lead.min(600)).saturating_sub(sim.queue.len() as u64);
			out.push(format!("dec {}", budget));
			sim.dec(budget);
			out.push("start".to_string());
			sim.start();
			out.push(format!("proc {} {}", len, o64(dt)));
			stats.add("frames", len);
			sim.proc(len);
		}
		for _ in 0..2 {
			out.push("start".to_string());
			out.push(format!("proc 3 {}", o64(dt)));
		}
		stats.hit("played_out");
	}
}

/// C09 / C18 long streams with ANY settings (rates that leave a fraction, volume, panning, noise): static and
/// streaming sound side by side until the ring's read window has passed the physical end of the ring twice
fn gen_long_free_case(rng: &mut Rng, out: &mut Vec<String>, stats: &mut Stats, thorough: bool) {
	let sr = gen_exact_sr(rng);
	let dt = 1.0 / sr as f64;
	let rate = rng.pick(&[std::f64::consts::SQRT_2, 2.0, 1.0, 1.5, 3.7]);
	let n = 2 * RING as u64 + 400 + rng.below(2000);
	out.push(format!(
		"new {} {} {} none imm n=0 none {} fix:{} {} none {} {} none",
		sr,
		n,
		match rng.below(3) {
			0 => "idx".to_string(),
			_ => format!("rnd={}", rng.below(1000)),
		},
		format!("fix:{}", o32(rng.pick(&[0.0f32, -6.0, 3.0]))),
		o64(rate),
		format!("fix:{}", o32(rng.pick(&[0.0f32, 0.3, -1.0]))),
		gen_packets_long(rng, thorough),
		gen_gran(rng)
	));
	stats.hit("new");
	stats.hit("case_long_free");
	let lead = rng.pick(&[0u64, 30, 700]);
	let mut consumed = 0.0f64;
	let mut first = true;
	while consumed < (2 * RING + 200) as f64 {
		let len = match rng.below(6) {
			0 => 1 + rng.below(64),
			1 => (1024.0 / rate) as u64,
			_ => ((100 + rng.below(800)) as f64 / rate) as u64,
		};
		let need = (len as f64 * rate).ceil() + 2.0;
		out.push(format!("dec {}", need as u64 + 6 + if first { lead } else { 0 }));
		first = false;
		out.push("start".to_string());
		out.push(format!("proc {} {}", len, o64(dt)));
		stats.hit("dec");
		stats.hit("start");
		stats.hit("proc");
		stats.add("frames", len);
		consumed += len as f64 * rate;
	}
}

/// thorough tier, C09: every length ≤ 4 × start × valid loop × packet size × granularity × rate, played to the end
fn gen_exhaustive_stream(out: &mut Vec<String>, case: &mut usize, stats: &mut Stats) {
	let rates: [(f64, u64); 5] = [(1.0, 1), (0.5, 2), (2.0, 1), (1.0 / 3.0, 3), (0.0, 1)];
	for len in 0..=4u64 {
		let mut regions = vec!["none".to_string()];
		for ls in 0..len {
			for le in ls + 1..=len {
				regions.push(format!("n={}~n={}", ls, le));
			}
		}
		for region in &regions {
			for start in 0..len + 2 {
				for (pk, gran) in [(1u64, 1u64), (2, 1), (3, 2), (2, 4), (100, 3)] {
					for (rate, stretch) in rates {
						out.push(format!("case {}", *case));
						*case += 1;
						out.push(format!(
							"new 1 {} idx none imm n={} {} fix:{} fix:{} fix:{} none {} {} none",
							len,
							start,
							region,
							o32(0.0),
							o64(rate),
							o32(0.0),
							pk,
							gran
						));
						let total = (len + 8) * stretch;
						let mut done = 0;
						let mut k = 0;
						while done < total {
							let chunk = [1u64, 3, 2, 4][k % 4];
							k += 1;
							out.push(format!("dec {}", chunk * 2 + 5));
							out.push("start".to_string());
							out.push(format!("proc {} {}", chunk, o64(1.0)));
							done += chunk;
							stats.add("exhaustive_ops", 3);
						}
					}
				}
			}
		}
	}
}

pub fn gen(rng: &mut Rng, n: usize, thorough: bool, stats: &mut Stats) -> Vec<String> {
	let mut out = vec![];
	let mut case = 0;
	if thorough {
		gen_exhaustive_stream(&mut out, &mut case, stats);
	}
	// long streams first: the sound is longer than two frame rings (16384 slots each) and is played until the
	// ring's read window has passed the physical end of the ring buffer twice
	let longs = if thorough { 12 } else if n >= 1000 { 3 } else { 2 };
	for i in 0..longs {
		out.push(format!("case {}", case));
		case += 1;
		match i % 3 {
			// a short lead, with and without seeks
			0 => {
				let lead = rng.pick(&[0u64, 5, 300]);
				let seeks = rng.chance(1, 2);
				gen_seekwalk_case(rng, &mut out, stats, true, lead, seeks, thorough)
			}
			// the decoder far ahead, seeks from there
			1 => {
				let lead = 300 + rng.below(500);
				gen_seekwalk_case(rng, &mut out, stats, true, lead, true, thorough)
			}
			_ => gen_long_free_case(rng, &mut out, stats, thorough),
		}
	}
	// the decoder as far ahead as the ring allows (it waits on the full ring), seeks from there
	for _ in 0..(if thorough { 3 } else if n >= 1000 { 1 } else { 0 }) {
		out.push(format!("case {}", case));
		case += 1;
		gen_seekwalk_case(rng, &mut out, stats, false, RING as u64, true, thorough);
		stats.hit("case_full_ring");
	}
	for _ in 0..n {
		out.push(format!("case {}", case));
		case += 1;
		if rng.chance(1, 10) {
			let lead = rng.pick(&[0u64, 3, 40, 40, 400, 1000]);
			gen_seekwalk_case(rng, &mut out, stats, false, lead, true, thorough);
		} else {
			gen_stream_case(rng, &mut out, stats);
		}
	}
	out
}

/// one decthread case: a failing / slow / abandoned streaming sound with the real thread under the gate
/// (or stepped by hand)
fn gen_decthread_case(rng: &mut Rng, out: &mut Vec<String>, stats: &mut Stats) {
	let sr = rng.pick(&[1u64, 1, 4, 1000]);
	let len = match rng.below(6) {
		0 => rng.below(4),
		1 | 2 => 1 + rng.below(12),
		3 => 17_000,
		_ => 4 + rng.below(60),
	};
	let long = len > 16_384;
	let dt = 1.0 / sr as f64;
	let fail = match rng.below(6) {
		0 | 1 => "none".to_string(),
		2 => "0".to_string(),
		3 => "1".to_string(),
		_ => format!("{}", rng.below(len.min(40) + 3)),
	};
	let lp = if !long && len > 0 && rng.chance(1, 3) { gen_valid_loop(rng, len, sr) } else { "none".to_string() };
	let plain = rng.chance(2, 3);
	let start = if rng.chance(1, 4) { rng.below(len + 1) } else { 0 };
	out.push(format!(
		"new {} {} idx none {} n={} {} fix:{} fix:{} fix:{} none {} {} {}",
		sr,
		len,
		if plain || rng.chance(1, 2) { "imm".to_string() } else { gen_start_time(rng, dt * 8.0) },
		start,
		lp,
		o32(0.0),
		o64(if plain { 1.0 } else { gen_nonneg_rate(rng) }),
		o32(0.0),
		gen_packets(rng),
		gen_gran(rng),
		fail
	));
	stats.hit("new");
	let threaded = rng.chance(3, 4);
	stats.hit(if threaded { "case_gated_thread" } else { "case_hand_stepped" });
	if threaded {
		if rng.chance(1, 5) {
			out.push(format!("dec {}", rng.below(6)));
		}
		out.push("tstart".to_string());
	}
	let pace = rng.below(4); // 0 stalled, 1 starving, 2 just enough, 3 ahead
	let nops = 4 + rng.below(14);
	let mut dropped_sound = false;
	let mut filled = false;
	for _ in 0..nops {
		let steps = match pace {
			0 => 0,
			1 => rng.below(3),
			2 => 3 + rng.below(6),
			_ => {
				if long && !filled && rng.chance(1, 8) {
					// fill the ring once (every further iteration sleeps 1 ms)
					filled = true;
					16_500
				} else {
					20 + rng.below(60)
				}
			}
		};
		if steps > 0 || rng.chance(1, 3) {
			out.push(format!("{} {}", if threaded { "tstep" } else { "dec" }, steps));
			stats.hit("decoder_steps");
		}
		match rng.below(16) {
			0 => out.push("poperr".to_string()),
			1 => out.push(format!("stop {}", gen_life_tween(rng, dt * 8.0))),
			2 => out.push(format!("pause {}", gen_life_tween(rng, dt * 8.0))),
			3 => out.push(format!("resume imm {}", gen_life_tween(rng, dt * 8.0))),
			4 if !dropped_sound => {
				out.push("sdrop".to_string());
				dropped_sound = true;
				stats.hit("sdrop");
			}
			5 => {
				out.push("hdrop".to_string());
				stats.hit("hdrop");
			}
			6 => out.push(format!("seekto {}", o64(rng.uniform(0.0, (len + 1) as f64) / sr as f64))),
			7 => out.push(format!("seekby {}", o64(rng.uniform(-3.0, 3.0) / sr as f64))),
			8 => out.push(format!("loop {}", if rng.chance(1, 3) || len == 0 { "none".to_string() } else { gen_valid_loop(rng, len, sr) })),
			9 => out.push("stop imm;0;lin".to_string()),
			_ => {}
		}
		out.push("start".to_string());
		out.push(format!("proc {} {}", 1 + rng.below(6), o64(dt)));
		stats.hit("proc");
	}
	out.push(format!("{} 3", if threaded { "tstep" } else { "dec" }));
	out.push("poperr".to_string());
	out.push("poperr".to_string());
}

/// thorough tier, C10: short streams × every failing call position × every moment of stop / drop relative to
/// the decoder's progress, the real thread under the gate
fn gen_exhaustive_decthread(out: &mut Vec<String>, case: &mut usize, stats: &mut Stats) {
	for len in 1..=4u64 {
		for (pk, gran) in [(1u64, 1u64), (2, 2), (3, 4)] {
			let mut fails: Vec<String> = (0..len + 4).map(|k| k.to_string()).collect();
			fails.push("none".to_string());
			for fail in &fails {
				for event in ["none", "stop imm;0;lin", "sdrop", "hdrop", "seekto 0000000000000000"] {
					for p in 0..len + 3 {
						out.push(format!("case {}", *case));
						*case += 1;
						out.push(format!(
							"new 1 {} idx none imm n=0 none fix:{} fix:{} fix:{} none {} {} {}",
							len,
							o32(0.0),
							o64(1.0),
							o32(0.0),
							pk,
							gran,
							fail
						));
						out.push("tstart".to_string());
						out.push(format!("tstep {}", p));
						if event != "none" {
							out.push(event.to_string());
						}
						for _ in 0..3 {
							out.push("start".to_string());
							out.push(format!("proc 2 {}", o64(1.0)));
							out.push("tstep 2".to_string());
						}
						out.push("poperr".to_string());
						out.push("tstep 3".to_string());
						stats.add("exhaustive_ops", 14);
					}
				}
			}
		}
	}
}

pub fn gen_decthread(rng: &mut Rng, n: usize, thorough: bool, stats: &mut Stats) -> Vec<String> {
	let mut out = vec![];
	let mut case = 0;
	// real free-running threads first (the findings are reproduced on every run)
	let mut rt: Vec<String> = vec![
		"rt finish 300 7 32".into(),
		"rt stop 0".into(),
		"rt stop 20".into(),
		"rt error 3 0 0".into(),
		"rt error 0 0 0".into(),
		"rt error 40 0 1".into(),
		"rt error 5 1 0".into(),
		"rt reject 400".into(),
		"rt trackdrop 0 400".into(),
		"rt mgrdrop 400".into(),
		"rt errpaused 2".into(),
		"rt errwaiting 2".into(),
		"rt slow 400 1500".into(),
	];
	if thorough {
		for k in 1..12 {
			rt.push(format!("rt error {} {} {}", k, k % 2, (k / 2) % 2));
		}
		for n in [1u64, 2, 5, 17, 1000, 20_000] {
			rt.push(format!("rt finish {} {} {}", n, 1 + n % 13, 16 + n % 50));
		}
		rt.push("rt trackdrop 1 400".into());
		rt.push("rt slow 900 700".into());
		rt.push("rt slow 200 4000".into());
	}
	for l in rt {
		out.push(format!("case {}", case));
		case += 1;
		stats.hit(&format!("rt_{}", l.split(' ').nth(1).unwrap()));
		out.push(l);
	}
	if thorough {
		gen_exhaustive_decthread(&mut out, &mut case, stats);
	}
	for _ in 0..n {
		out.push(format!("case {}", case));
		case += 1;
		gen_decthread_case(rng, &mut out, stats);
	}
	out
}

#[allow(dead_code)]
fn unused(_: EndPosition, _: Region) {}

/// C03 "each fade-driven step completes when its tween completes (to within one callback)", for the streaming
/// sound and whatever its decoder does - in particular while the sound is starved of decoded frames: a `pause`
/// (`stop`) that is the only kind of life-cycle command read by an `on_start_processing`, with an immediate or
/// delayed tween, has to leave the handle at Paused (Stopped) once the sound has been processed for the tween's
/// audio time. The delay is counted down in whole `process` calls and the call in which it runs out does not count
/// towards the fade, so the fade has certainly lasted (time processed - delay - longest call); one microsecond covers
/// the nanosecond rounding of the countdown. Checked from the call AFTER that one on ("to within one callback"),
/// until the next life-cycle command is read. A sound that runs out, fails or loses its clock in the meantime is
/// Stopped, which is final: accepted in place of Paused.
#[derive(Default)]
struct LifeDue {
	/// life-cycle commands written since the last `on_start_processing`: (kind, delay + duration of a tween that can be followed)
	written: Vec<(String, Option<f64>)>,
	/// (target, audio time needed, processed so far, longest call)
	inflight: Option<(PlaybackState, f64, f64, f64)>,
	due: Option<PlaybackState>,
}
impl LifeDue {
	fn command(&mut self, tok: &[&str]) {
		let tween = match tok[0] {
			"pause" | "stop" => tok[1],
			"resume" => tok[2],
			_ => return,
		};
		let p: Vec<&str> = tween.split(';').collect();
		let delay = if p[0] == "imm" { Some(0.0) } else { p[0].strip_prefix("del:").map(|d| pu(d) as f64 * 1e-9) };
		self.written.push((tok[0].to_string(), delay.map(|d| d + pu(p[1]) as f64 * 1e-9)));
	}
	fn read(&mut self) {
		if self.written.is_empty() {
			return;
		}
		self.inflight = None;
		self.due = None;
		let kind = self.written[0].0.clone();
		if self.written.iter().all(|w| w.0 == kind) && kind != "resume" {
			if let Some(need) = self.written.last().unwrap().1 {
				let target = if kind == "stop" { PlaybackState::Stopped } else { PlaybackState::Paused };
				self.inflight = Some((target, need, 0.0, 0.0));
			}
		}
		self.written.clear();
	}
	fn processed(&mut self, len: usize, dt: f64, state: Option<PlaybackState>) -> Option<String> {
		if let (Some(target), Some(state)) = (self.due, state) {
			if state != target && state != PlaybackState::Stopped {
				self.due = None;
				return Some(format!("the handle still reports {:?} after the tween's time, documented: {:?}", state, target));
			}
		}
		if let Some((target, need, seen, longest)) = self.inflight.as_mut() {
			*seen += len as f64 * dt;
			*longest = longest.max(len as f64 * dt);
			if *seen - *longest >= *need + 1e-6 {
				self.due = Some(*target);
				self.inflight = None;
			}
		}
		None
	}
}
