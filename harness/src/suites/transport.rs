//! Suite `transport` (C04): `kira::sound::transport::Transport` through `verif_hooks::HTransport`.
//!
//! ops:  new <start> <region> <reverse> <sample rate> <num frames>
//!       inc <num frames>     dec     seek <position> <num frames>     loop <region> <sample rate> <num frames>
//! region: none | <pos>~end | <pos>~<pos>      pos: s=<f64 bits> (seconds) | n=<samples>
//! every op prints `<position> <playing> <loop start>,<loop end>|none`
//!
//! Most cases have a valid loop region (start < end ≤ num frames) or none.  Degenerate loop regions
//! (empty, inverted: `Transport::new` / `set_loop_region` drop them) and reversed transports whose start
//! position is at or past the end (every reversed empty sound: the start frame saturates at 0) are
//! generated regularly — they used to hang / underflow and are ordinary inputs since the repairs; a
//! fault on any of them is reported by `fault_oracles` and is not a known finding any more.
//! One case in ten is EXTREME: start positions, seek targets and loop bounds at usize::MAX, 2^63, just past
//! 2^53, 1e300 seconds (saturating) — the wrap into the loop region is modular arithmetic since the repair
//! (it was a loop of `position / loop length` iterations: the watchdog below catches a regression) and
//! `position += 1` saturates.  The model keeps positions in unbounded naturals: the twin prints
//! `min position usize::MAX`; a start AT usize::MAX is only combined with no loop region (with one, kira's
//! saturated increment and the model's `+ 1` differ by one frame of loop phase).
use crate::runner::{run_cases, Out};
use crate::util::*;
use kira::sound::{EndPosition, PlaybackPosition, Region};
use kira::verif_hooks::HTransport;
use std::time::Duration;

pub fn parse_pos(s: &str) -> PlaybackPosition {
	let (k, v) = s.split_once('=').expect("bad position");
	match k {
		"s" => PlaybackPosition::Seconds(p64(v)),
		"n" => PlaybackPosition::Samples(pu(v) as usize),
		_ => panic!("bad position {}", s),
	}
}
pub fn parse_region(s: &str) -> Option<Region> {
	if s == "none" {
		return None;
	}
	let (a, b) = s.split_once('~').expect("bad region");
	Some(Region {
		start: parse_pos(a),
		end: if b == "end" {
			EndPosition::EndOfAudio
		} else {
			EndPosition::Custom(parse_pos(b))
		},
	})
}
/// a position of `k` frames at sample rate `sr`, written as samples or (exactly representable) seconds
pub fn fmt_pos(rng: &mut Rng, k: u64, sr: u64) -> String {
	if rng.chance(1, 3) {
		// k / sr seconds: `(s * sr).round()` gives k back for the small values used here
		format!("s={}", o64(k as f64 / sr as f64))
	} else {
		format!("n={}", k)
	}
}
pub fn fmt_region(rng: &mut Rng, ls: u64, le: u64, n: u64, sr: u64) -> String {
	let a = fmt_pos(rng, ls, sr);
	if le == n && rng.chance(1, 2) {
		format!("{}~end", a)
	} else {
		format!("{}~{}", a, fmt_pos(rng, le, sr))
	}
}

fn show(t: &HTransport) -> String {
	format!(
		"{} {} {}",
		t.position(),
		t.playing() as u8,
		match t.loop_region() {
			None => "none".to_string(),
			Some((a, b)) => format!("{},{}", a, b),
		}
	)
}

/// reference wrap used by the oracles (closed form, valid region only)
fn wrap_down(p: usize, ls: usize, le: usize) -> usize {
	if p < le {
		p
	} else {
		ls + (p - ls) % (le - ls)
	}
}

fn exec(case: &[String], out: &mut Out) {
	out.put(case[0].clone());
	let mut t: Option<HTransport> = None;
	for l in &case[1..] {
		let tok: Vec<&str> = l.split_whitespace().collect();
		match tok[0] {
			"new" => {
				let sr = pu(tok[4]) as u32;
				let n = pu(tok[5]) as usize;
				let start = pu(tok[1]) as usize;
				let reverse = tok[3] == "1";
				let tr = HTransport::new(start, parse_region(tok[2]), reverse, sr, n);
				out.put(show(&tr));
				// --- oracles (C04_transport_new_any): any start position, any length, either direction ---
				let want = if reverse { n.saturating_sub(1).saturating_sub(start) } else { start };
				if tr.position() != want || !tr.playing() {
					out.oracle_fail("transport_new_wrong", l);
				}
				if reverse && n > 0 && tr.position() >= n {
					out.oracle_fail("transport_new_reverse_outside", l);
				}
				if let Some((a, b)) = tr.loop_region() {
					if a >= b {
						out.oracle_fail("transport_new_degenerate_loop_kept", l);
					}
				}
				t = Some(tr);
			}
			"inc" | "dec" | "seek" => {
				let tr = t.as_mut().unwrap();
				let (p0, playing0, lr) = (tr.position(), tr.playing(), tr.loop_region());
				let n = match tok[0] {
					"inc" => Some(pu(tok[1]) as usize),
					"seek" => Some(pu(tok[2]) as usize),
					_ => None,
				};
				match tok[0] {
					"inc" => tr.increment_position(n.unwrap()),
					"dec" => tr.decrement_position(),
					_ => tr.seek_to(pu(tok[1]) as usize, n.unwrap()),
				}
				out.put(show(tr));
				// --- oracles (C04_transport_inv), only for a valid or absent loop region ---
				let valid = match (lr, n) {
					(None, _) => true,
					(Some((ls, le)), Some(n)) => ls < le && le <= n,
					(Some((ls, le)), None) => ls < le,
				};
				if !valid {
					continue;
				}
				let (p1, playing1) = (tr.position(), tr.playing());
				if tr.loop_region() != lr {
					out.oracle_fail("transport_loop_region_changed", l);
				}
				match tok[0] {
					"inc" => {
						let n = n.unwrap();
						if !playing0 {
							if p1 != p0 || playing1 {
								out.oracle_fail("transport_inc_after_end_moves", l);
							}
						} else {
							let want = match lr {
								Some((ls, le)) => wrap_down(p0.saturating_add(1), ls, le),
								None => p0.saturating_add(1),
							};
							if p1 != want || playing1 != (want < n) {
								out.oracle_fail("transport_inc_wrong", l);
							}
							if let Some((ls, le)) = lr {
								if p0.saturating_add(1) == le && p1 != ls {
									out.oracle_fail("transport_wrap_forward", l);
								}
								if !playing1 {
									out.oracle_fail("transport_loop_ended", l);
								}
							}
						}
						if playing1 && p1 >= n {
							out.oracle_fail("transport_playing_outside", l);
						}
					}
					"dec" => {
						if !playing0 {
							if p1 != p0 || playing1 {
								out.oracle_fail("transport_dec_after_end_moves", l);
							}
						} else if let Some((ls, le)) = lr {
							// smallest p0 + k (le - ls) > ls, minus one
							// (u128: the loop end may be usize::MAX)
							let (d, p, l) = ((le - ls) as u128, p0 as u128, ls as u128);
							let q = if p > l { p } else { p + ((l + 1 - p) + d - 1) / d * d };
							if p1 as u128 != q - 1 || !playing1 {
								out.oracle_fail("transport_dec_wrong", l);
							}
							if p0 == ls && p1 != le - 1 {
								out.oracle_fail("transport_wrap_backward", l);
							}
						} else if p0 == 0 {
							if p1 != 0 || playing1 {
								out.oracle_fail("transport_dec_end_wrong", l);
							}
						} else if p1 != p0 - 1 || !playing1 {
							out.oracle_fail("transport_dec_wrong", l);
						}
					}
					_ => {
						let n = n.unwrap();
						if playing1 && (p1 >= n || !playing0) {
							out.oracle_fail("transport_seek_playing_outside", l);
						}
						if let Some((ls, le)) = lr {
							let target = pu(tok[1]) as usize;
							let d = (le - ls) as u128;
							let want = if target > p0 {
								wrap_down(target, ls, le)
							} else if target >= ls {
								target
							} else {
								(target as u128 + ((ls - target) as u128 + d - 1) / d * d) as usize
							};
							if p1 != want {
								out.oracle_fail("transport_seek_wrong", l);
							}
						} else if p1 != pu(tok[1]) as usize {
							out.oracle_fail("transport_seek_wrong", l);
						}
					}
				}
			}
			"loop" => {
				let tr = t.as_mut().unwrap();
				tr.set_loop_region(parse_region(tok[1]), pu(tok[2]) as u32, pu(tok[3]) as usize);
				out.put(show(tr));
			}
			_ => panic!("transport: unknown op {}", tok[0]),
		}
	}
}

/// `!oracle transport_fault …` lines for every fault in the trace, classified by the loop region the
/// real transport reported last (`shape=`): these are the defects the in-domain hypotheses exclude.
pub fn fault_oracles(ops: &[String], trace: &[String], suite_tag: &str) -> Vec<(usize, String)> {
	let mut res = vec![];
	let mut case_no = 0usize;
	let mut last_loop: Option<(u64, u64)> = None;
	let ops: Vec<&String> = ops
		.iter()
		.filter(|l| !l.trim().is_empty() && !l.starts_with('#'))
		.collect();
	let lines: Vec<&String> = trace.iter().filter(|l| !l.starts_with('!')).collect();
	for (i, l) in lines.iter().enumerate() {
		if i >= ops.len() {
			break;
		}
		if l.starts_with("case") {
			last_loop = None;
			case_no += 1;
			continue;
		}
		if let Some(kind) = l.strip_prefix("fault ") {
			let op = ops[i];
			let tok: Vec<&str> = op.split_whitespace().collect();
			let shape = if tok[0] == "new" && tok[3] == "1" && pu(tok[1]) >= pu(tok[5]) {
				"reverse_start_ge_len".to_string()
			} else {
				match last_loop {
					Some((a, b)) if a == b => "loop_empty".to_string(),
					Some((a, b)) if a > b => "loop_inverted".to_string(),
					_ => "in_domain".to_string(),
				}
			};
			res.push((
				case_no,
				format!(
					"!oracle {}_fault kind={} shape={} loop={:?} op={}",
					suite_tag, kind, shape, last_loop, op
				),
			));
			continue;
		}
		let tok: Vec<&str> = l.split_whitespace().collect();
		if tok.len() == 3 {
			last_loop = tok[2]
				.split_once(',')
				.map(|(a, b)| (a.parse().unwrap(), b.parse().unwrap()));
		}
	}
	res
}

/// puts each extra `!oracle` line after the trace lines of its case (`extras`: 1-based case ordinal, line)
pub fn insert_after_cases(trace: Vec<String>, extras: Vec<(usize, String)>) -> Vec<String> {
	let mut out = Vec::with_capacity(trace.len() + extras.len());
	let mut case_no = 0usize;
	let flush = |out: &mut Vec<String>, c: usize| {
		for (k, l) in &extras {
			if *k == c {
				out.push(l.clone());
			}
		}
	};
	for l in trace {
		if l.starts_with("case") {
			if case_no > 0 {
				flush(&mut out, case_no);
			}
			case_no += 1;
		}
		out.push(l);
	}
	if case_no > 0 {
		flush(&mut out, case_no);
	}
	out
}

pub fn run(ops: &[String]) -> Vec<String> {
	let trace = run_cases(ops, Some(Duration::from_secs(10)), exec);
	let extra = fault_oracles(ops, &trace, "transport");
	insert_after_cases(trace, extra)
}

const XPOS: &[u64] = &[u64::MAX, u64::MAX - 1, u64::MAX - 1000, 1 << 63, (1 << 63) + 1, (1 << 53) + 1, 1 << 32, 1_000_000_000_000];

/// an extreme position: samples, or seconds that saturate / are far past every sound
fn xpos(rng: &mut Rng) -> String {
	if rng.chance(1, 3) {
		format!("s={}", o64(rng.pick(&[1e300, f64::MAX, 1.8446744073709552e19, 9007199254740994.0, 1e15])))
	} else {
		format!("n={}", rng.pick(XPOS))
	}
}

/// EXTREME case: positions near usize::MAX against ordinary (and extreme) loop regions, both directions
fn gen_extreme_case(rng: &mut Rng, out: &mut Vec<String>, stats: &mut Stats, n: u64) {
	let sr = rng.pick(&[1u64, 8, 44100, 48000]);
	let reverse = rng.chance(1, 3);
	let mut region = "none".to_string();
	if n >= 1 && rng.chance(3, 4) {
		let ls = rng.below(n);
		let le = ls + 1 + rng.below(n - ls);
		region = match rng.below(5) {
			0 => format!("{}~{}", fmt_pos(rng, ls, sr), xpos(rng)), // a loop end far past the sound
			1 => format!("{}~{}", xpos(rng), xpos(rng)),            // usually empty / inverted: dropped
			_ => fmt_region(rng, ls, le, n, sr),
		};
	}
	let mut start = match rng.below(3) {
		0 => rng.below(n + 1),
		_ => rng.pick(XPOS),
	};
	// forwards, a start at usize::MAX is only combined with no loop region, and nothing starts so close to it
	// that the walk below crosses it (kira saturates there, the model counts on)
	if !reverse && start > u64::MAX - 1000 {
		if start == u64::MAX && region == "none" {
			stats.hit("extreme_start_usize_max");
		} else {
			start = u64::MAX - 1000;
		}
	}
	stats.hit("extreme_case");
	out.push(format!("new {} {} {} {} {}", start, region, reverse as u8, sr, n));
	let at_max = !reverse && start == u64::MAX;
	let mut forward = !reverse;
	for _ in 0..rng.range(3, 24) {
		if rng.chance(1, 6) {
			forward = !forward;
		}
		let line = match rng.below(10) {
			0..=2 => format!("seek {} {}", if rng.chance(2, 3) { rng.pick(XPOS) } else { rng.below(n + 2) }, n),
			3 if n >= 1 && !at_max => {
				let ls = rng.below(n);
				let le = ls + 1 + rng.below(n - ls);
				if rng.chance(1, 3) {
					format!("loop {}~{} {} {}", fmt_pos(rng, ls, sr), xpos(rng), sr, n)
				} else {
					format!("loop {} {} {}", fmt_region(rng, ls, le, n, sr), sr, n)
				}
			}
			_ => {
				if forward {
					format!("inc {}", n)
				} else {
					"dec".to_string()
				}
			}
		};
		stats.hit(line.split(' ').next().unwrap());
		out.push(line);
	}
}

fn gen_case(rng: &mut Rng, out: &mut Vec<String>, stats: &mut Stats, n: u64, hang_budget: &mut u32) {
	let sr = rng.pick(&[1u64, 2, 4, 8, 1000, 44100, 48000]);
	let reverse = rng.chance(1, 3);
	// loop region
	let mut region = "none".to_string();
	let mut kind = "none";
	if n >= 1 && rng.chance(3, 5) {
		let ls = rng.below(n);
		let le = match rng.below(4) {
			0 => n,
			1 => ls + 1,
			_ => ls + 1 + rng.below(n - ls),
		};
		region = fmt_region(rng, ls, le, n, sr);
		kind = "valid";
	}
	// out-of-domain on purpose (rare)
	let ood = rng.below(40);
	if ood == 0 && *hang_budget > 0 {
		*hang_budget -= 1;
		let a = rng.below(n + 1);
		region = format!("n={}~n={}", a, a);
		kind = "ood_loop_empty";
	} else if ood == 1 && n >= 1 {
		let a = 1 + rng.below(n);
		region = format!("n={}~n={}", a, rng.below(a));
		kind = "ood_loop_inverted";
	}
	stats.hit(&format!("loop_{}", kind));
	let start = if reverse {
		// at or past the end (always so for an empty sound): the start frame saturates at 0
		match rng.below(8) {
			0 => n,
			1 => n + 1 + rng.below(3),
			2 => n.saturating_sub(1),
			_ => rng.below(n + 1),
		}
	} else {
		match rng.below(6) {
			0 => n,
			1 => n + 1 + rng.below(3),
			2 => 0,
			_ => rng.below(n + 1),
		}
	};
	if reverse && start >= n {
		stats.hit("reverse_start_ge_len");
	}
	out.push(format!("new {} {} {} {} {}", start, region, reverse as u8, sr, n));
	stats.hit("new");
	let steps = rng.range(3, 30);
	// mostly walk in one direction, as a sound does
	let mut forward = !reverse;
	for _ in 0..steps {
		if rng.chance(1, 8) {
			forward = !forward;
		}
		let line = match rng.below(12) {
			0 | 1 => {
				let p = match rng.below(4) {
					0 => n,
					1 => n + rng.below(4),
					_ => rng.below(n + 1),
				};
				format!("seek {} {}", p, n)
			}
			2 => {
				if n >= 1 && rng.chance(2, 3) && !kind.starts_with("ood") {
					let ls = rng.below(n);
					let le = ls + 1 + rng.below(n - ls);
					format!("loop {} {} {}", fmt_region(rng, ls, le, n, sr), sr, n)
				} else if kind.starts_with("ood") {
					format!("seek {} {}", rng.below(n + 1), n)
				} else {
					format!("loop none {} {}", sr, n)
				}
			}
			_ => {
				if forward {
					format!("inc {}", n)
				} else {
					"dec".to_string()
				}
			}
		};
		stats.hit(line.split(' ').next().unwrap());
		out.push(line);
	}
}

pub fn gen(rng: &mut Rng, n: usize, thorough: bool, stats: &mut Stats) -> Vec<String> {
	let mut out = vec![];
	let mut case = 0;
	if thorough {
		// exhaustive small scopes: every length ≤ 4, start, valid loop region, direction and every
		// sequence of ≤ 3 operations over {inc, dec, seek p}
		for len in 0..=4u64 {
			let mut regions = vec!["none".to_string()];
			for ls in 0..len {
				for le in ls + 1..=len {
					regions.push(format!("n={}~n={}", ls, le));
				}
			}
			let mut alphabet = vec![format!("inc {}", len), "dec".to_string()];
			for p in 0..=len {
				alphabet.push(format!("seek {} {}", p, len));
			}
			for region in &regions {
				for reverse in 0..2u8 {
					// reversed too: start positions at and past the end (saturate at frame 0)
					let starts = len + 2;
					for start in 0..starts {
						let k = alphabet.len();
						for code in 0..k * k * k {
							out.push(format!("case {}", case));
							case += 1;
							out.push(format!("new {} {} {} 1 {}", start, region, reverse, len));
							out.push(alphabet[code % k].clone());
							out.push(alphabet[code / k % k].clone());
							out.push(alphabet[code / k / k].clone());
							stats.add("exhaustive_ops", 4);
						}
					}
				}
			}
		}
	}
	let mut hang_budget = if thorough { 4 } else { 2 };
	for _ in 0..n {
		out.push(format!("case {}", case));
		case += 1;
		let len = match rng.below(8) {
			0 => 0,
			1 => 1,
			2 => 2,
			3 => rng.below(6),
			4 => 1000 + rng.below(100_000),
			_ => rng.below(40),
		};
		if rng.chance(1, 10) {
			gen_extreme_case(rng, &mut out, stats, len.min(5000));
		} else {
			gen_case(rng, &mut out, stats, len, &mut hang_budget);
		}
	}
	out
}
