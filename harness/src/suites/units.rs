//! Suite `units` (C19): unit conversions, clock-time arithmetic, easings, mappings.
//! Stateless: every op is evaluated on its own.
use crate::runner::{run_cases, Out};
use crate::util::*;
use kira::clock::{ClockSpeed, ClockTime};
use kira::info::MockInfoBuilder;
use kira::{Decibels, Easing, Frame, Mapping, Panning, PlaybackRate, Semitones, Tween, Tweenable};
use std::time::Duration;

const F32_POOL: &[f32] = &[
	0.0, -0.0, 1.0, -1.0, 0.5, -0.5, -60.0, -59.999996, -60.000004, -61.0, -30.0, -6.0, 6.0, 20.0,
	-20.0, 1e-10, -1e-10, 100.0, -100.0, 0.25, 0.75, 2.0, -2.0, 1.0000001, 0.99999994, -0.99999994,
	1e-38, -1e-38, 3.4e38, -3.4e38, 1e-45, -3.0, -0.1, 0.1,
];
const F64_POOL: &[f64] = &[
	0.0, -0.0, 1.0, -1.0, 0.5, 0.25, 0.75, 2.0, 12.0, -12.0, 24.0, 1.0 / 3.0, 0.1, 0.9,
	0.9999999999999999, 1e-20, 1e-9, 1e-300, 60.0, 120.0, 1e6, 0.001, 3.5, 7.25, 100.0, 1e9,
	4503599627370496.0, 0.49999999999999994, 1.0000000000000002,
];

pub fn gen_f32(rng: &mut Rng) -> f32 {
	match rng.below(10) {
		0..=2 => rng.pick(F32_POOL),
		3..=5 => rng.uniform(-70.0, 12.0) as f32,
		6..=7 => rng.uniform(-1.5, 1.5) as f32,
		8 => {
			// neighbour of a pool value
			let x = rng.pick(F32_POOL);
			let b = x.to_bits();
			let y = f32::from_bits(if rng.chance(1, 2) { b.wrapping_add(1) } else { b.wrapping_sub(1) });
			if y.is_finite() {
				y
			} else {
				x
			}
		}
		_ => {
			let x = f32::from_bits(rng.next() as u32);
			if x.is_finite() {
				x
			} else {
				0.0
			}
		}
	}
}
pub fn gen_f64(rng: &mut Rng) -> f64 {
	match rng.below(10) {
		0..=2 => rng.pick(F64_POOL) * if rng.chance(1, 4) { -1.0 } else { 1.0 },
		3..=5 => rng.uniform(-4.0, 4.0),
		6 => rng.uniform(0.0, 1.0),
		7 => rng.uniform(-1000.0, 1000.0),
		8 => {
			let x = rng.pick(F64_POOL);
			let b = x.to_bits();
			let y = f64::from_bits(if rng.chance(1, 2) { b.wrapping_add(1) } else { b.wrapping_sub(1) });
			if y.is_finite() {
				y
			} else {
				x
			}
		}
		_ => {
			let e = rng.range(-40, 40) as i32;
			rng.uniform(-1.0, 1.0) * 2f64.powi(e)
		}
	}
}
pub fn gen_unit(rng: &mut Rng) -> f64 {
	match rng.below(8) {
		0 => 0.0,
		1 => 1.0,
		2 => 0.5,
		3 => f64::from_bits(1.0f64.to_bits() - 1),
		4 => f64::from_bits(0.5f64.to_bits() - 1),
		_ => rng.unit(),
	}
}
/// easings with positive powers (the property's domain)
pub fn gen_easing(rng: &mut Rng) -> Easing {
	let pi = rng.pick(&[1, 2, 3, 4, 5, 7, 10]);
	let pf = match rng.below(4) {
		0 => rng.pick(&[0.5, 1.0, 2.0, 3.0, 0.25, 1.5]),
		_ => rng.uniform(0.05, 6.0),
	};
	match rng.below(8) {
		0 | 1 => Easing::Linear,
		2 => Easing::InPowi(pi),
		3 => Easing::OutPowi(pi),
		4 => Easing::InOutPowi(pi),
		5 => Easing::InPowf(pf),
		6 => Easing::OutPowf(pf),
		_ => Easing::InOutPowf(pf),
	}
}
pub fn fmt_easing(e: &Easing) -> String {
	match e {
		Easing::Linear => "lin".into(),
		Easing::InPowi(p) => format!("ipi:{}", p),
		Easing::OutPowi(p) => format!("opi:{}", p),
		Easing::InOutPowi(p) => format!("iopi:{}", p),
		Easing::InPowf(p) => format!("ipf:{}", o64(*p)),
		Easing::OutPowf(p) => format!("opf:{}", o64(*p)),
		Easing::InOutPowf(p) => format!("iopf:{}", o64(*p)),
	}
}
pub fn parse_easing(s: &str) -> Easing {
	if s == "lin" {
		return Easing::Linear;
	}
	let (k, v) = s.split_once(':').expect("bad easing");
	match k {
		"ipi" => Easing::InPowi(v.parse().unwrap()),
		"opi" => Easing::OutPowi(v.parse().unwrap()),
		"iopi" => Easing::InOutPowi(v.parse().unwrap()),
		"ipf" => Easing::InPowf(p64(v)),
		"opf" => Easing::OutPowf(p64(v)),
		"iopf" => Easing::InOutPowf(p64(v)),
		_ => panic!("bad easing {}", s),
	}
}
fn gen_cs(rng: &mut Rng) -> (&'static str, f64) {
	let v = match rng.below(4) {
		0 => rng.pick(&[0.5, 1.0, 2.0, 60.0, 120.0, 0.25, 1e-3, 1e3]),
		_ => rng.uniform(0.01, 500.0),
	};
	(rng.pick(&["spt", "tps", "tpm"]), v)
}
fn mk_cs(k: &str, v: f64) -> ClockSpeed {
	match k {
		"spt" => ClockSpeed::SecondsPerTick(v),
		"tps" => ClockSpeed::TicksPerSecond(v),
		"tpm" => ClockSpeed::TicksPerMinute(v),
		_ => panic!("bad clock speed kind"),
	}
}
fn gen_ticks(rng: &mut Rng) -> u64 {
	match rng.below(6) {
		0 => 0,
		1 => 1,
		2 => rng.below(10),
		3 => rng.below(1 << 20),
		4 => (1u64 << 53) - rng.below(3),
		_ => rng.below(1 << 40),
	}
}
fn gen_frac(rng: &mut Rng) -> f64 {
	match rng.below(6) {
		0 => 0.0,
		1 => f64::from_bits(1.0f64.to_bits() - 1),
		2 => 0.5,
		3 => 1e-17,
		_ => rng.unit(),
	}
}
fn gen_amount(rng: &mut Rng) -> f64 {
	match rng.below(8) {
		0 => 0.0,
		1 => 1.0,
		2 => rng.pick(&[1e-20, 1e-17, 0.5, 0.25, 2.0, 3.0, 1e-9, 0.9999999999999999]),
		3 => -rng.uniform(0.0, 10.0),
		4 => rng.uniform(0.0, 1.0),
		5 => rng.below(1000) as f64,
		_ => rng.uniform(0.0, 1000.0),
	}
}

pub fn gen(rng: &mut Rng, n: usize, _thorough: bool, stats: &mut Stats) -> Vec<String> {
	let mut out = vec![];
	for case in 0..n {
		out.push(format!("case {}", case));
		for _ in 0..16 {
			let kind = rng.below(20);
			let line = match kind {
				0 | 1 => format!("amp {}", o32(gen_f32(rng))),
				2 => {
					let l = gen_f32(rng);
					let r = if rng.chance(1, 2) { l } else { gen_f32(rng) };
					format!("pan {} {} {}", o32(l), o32(r), o32(gen_f32(rng)))
				}
				3 => format!("mono {} {}", o32(gen_f32(rng)), o32(gen_f32(rng))),
				4 => format!("semi {}", o64(gen_f64(rng))),
				5 => {
					let (k, v) = gen_cs(rng);
					format!("cs {} {}", k, o64(v))
				}
				6 => {
					let (ka, va) = gen_cs(rng);
					let (kb, vb) = gen_cs(rng);
					format!("cslerp {} {} {} {} {}", ka, o64(va), kb, o64(vb), o64(gen_unit(rng)))
				}
				7 => format!("ct.from {}", o64(gen_amount(rng).abs())),
				8 | 9 => format!(
					"ct.{} {} {} {}",
					if kind == 8 { "add" } else { "sub" },
					gen_ticks(rng),
					o64(gen_frac(rng)),
					o64(gen_amount(rng))
				),
				10 => {
					let t = gen_ticks(rng);
					if rng.chance(1, 2) {
						// whole-tick addends: small, beyond 2^53 (where an f64 no longer holds every integer), huge
						let n = match rng.below(4) {
							0 | 1 => rng.below(1 << 30),
							2 => (1u64 << 52) + rng.below(1 << 53),
							_ => rng.below(1 << 62),
						};
						format!("ct.addu {} {} {}", t, o64(gen_frac(rng)), n)
					} else {
						format!("ct.subu {} {} {}", t, o64(gen_frac(rng)), rng.below(t + 1))
					}
				}
				11 => {
					let t = gen_ticks(rng);
					let f = gen_frac(rng);
					let (t2, f2) = match rng.below(3) {
						0 => (t, f),
						1 => (t, gen_frac(rng)),
						_ => (gen_ticks(rng), gen_frac(rng)),
					};
					format!("ct.cmp {} {} {} {}", t, o64(f), t2, o64(f2))
				}
				12 => format!("ease {} {}", fmt_easing(&gen_easing(rng)), o64(gen_unit(rng))),
				13 => {
					let (i0, i1) = if rng.chance(1, 3) { (0.0, 1.0) } else { (gen_f64(rng), gen_f64(rng)) };
					let i1 = if i1 == i0 { i0 + 1.0 } else { i1 };
					format!(
						"map64 {} {} {} {} {} {}",
						o64(i0),
						o64(i1),
						o64(gen_f64(rng)),
						o64(gen_f64(rng)),
						fmt_easing(&gen_easing(rng)),
						o64(gen_f64(rng))
					)
				}
				14 => {
					let (i0, i1) = if rng.chance(1, 3) { (0.0, 1.0) } else { (gen_f64(rng), gen_f64(rng)) };
					let i1 = if i1 == i0 { i0 + 1.0 } else { i1 };
					format!(
						"map32 {} {} {} {} {} {}",
						o64(i0),
						o64(i1),
						o32(gen_f32(rng)),
						o32(gen_f32(rng)),
						fmt_easing(&gen_easing(rng)),
						o64(gen_f64(rng))
					)
				}
				15 => {
					if rng.chance(1, 2) {
						format!("lerp64 {} {} {}", o64(gen_f64(rng)), o64(gen_f64(rng)), o64(gen_unit(rng)))
					} else {
						format!("lerp32 {} {} {}", o32(gen_f32(rng)), o32(gen_f32(rng)), o64(gen_unit(rng)))
					}
				}
				17..=19 => gen_ct_more(rng),
				_ => {
					let ns = match rng.below(4) {
						0 => 10_000_000u64,
						1 => rng.below(1000) + 1,
						2 => rng.below(5_000_000_000) + 1,
						_ => 1_000_000_000 * (1 + rng.below(100)),
					};
					format!("tween {} {} {}", fmt_easing(&gen_easing(rng)), ns, o64(rng.uniform(0.0, ns as f64 / 1e9)))
				}
			};
			stats.hit(line.split(' ').next().unwrap());
			out.push(line);
		}
	}
	out
}

fn ct(t: u64, f: f64) -> ClockTime {
	// any clock id: obtained from a mock info builder
	thread_local! {
		static ID: kira::clock::ClockId = MockInfoBuilder::new().add_clock(true, 0, 0.0);
	}
	ClockTime {
		clock: ID.with(|i| *i),
		ticks: t,
		fraction: f,
	}
}

fn rel_close(a: f64, b: f64, tol: f64) -> bool {
	(a - b).abs() <= tol * a.abs().max(b.abs()).max(1e-300)
}

fn exec(tok: &[&str], out: &mut Out) {
	match tok[0] {
		"amp" => {
			let x = p32(tok[1]);
			let a = Decibels(x).as_amplitude();
			out.put(h32(a));
			// oracles (C19): 0 dB ↦ 1, ≤ -60 dB ↦ 0, range, monotone against the next float up
			if x == 0.0 && a != 1.0 {
				out.oracle_fail("amp_zero_db", tok.join(" "));
			}
			if x <= -60.0 && a != 0.0 {
				out.oracle_fail("amp_silence", tok.join(" "));
			}
			let up = next_up32(x);
			if up.is_finite() && Decibels(up).as_amplitude() < a {
				out.oracle_fail("amp_monotone", tok.join(" "));
			}
			if x > -60.0 && x != 0.0 && x < 200.0 {
				let r = 10f64.powf(x as f64 / 20.0);
				if !rel_close(a as f64, r, 1e-5) {
					out.oracle_fail("amp_formula", tok.join(" "));
				}
			}
		}
		"pan" => {
			let (l, r, p) = (p32(tok[1]), p32(tok[2]), p32(tok[3]));
			let f = Frame::new(l, r).panned(Panning(p));
			out.put(format!("{} {}", h32(f.left), h32(f.right)));
			if p == 0.0 && (f.left.to_bits() != l.to_bits() || f.right.to_bits() != r.to_bits()) {
				out.oracle_fail("pan_centre", tok.join(" "));
			}
			if l == r && l.abs() < 1e15 && l.abs() > 1e-15 {
				let pw = (f.left as f64).powi(2) + (f.right as f64).powi(2);
				let want = 2.0 * (l as f64).powi(2);
				if !rel_close(pw, want, 1e-5) {
					out.oracle_fail("pan_power", tok.join(" "));
				}
			}
		}
		"mono" => {
			let f = Frame::new(p32(tok[1]), p32(tok[2])).as_mono();
			out.put(format!("{} {}", h32(f.left), h32(f.right)));
		}
		"semi" => {
			let s = p64(tok[1]);
			let r: PlaybackRate = Semitones(s).into();
			out.put(h64(r.0));
			let r12: PlaybackRate = Semitones(s + 12.0).into();
			if r.0.is_finite() && r.0 > 1e-290 && r12.0.is_finite() && !rel_close(r12.0, 2.0 * r.0, 1e-9) {
				out.oracle_fail("octave", tok.join(" "));
			}
		}
		"cs" => {
			let c = mk_cs(tok[1], p64(tok[2]));
			let (a, b, m) = (c.as_seconds_per_tick(), c.as_ticks_per_second(), c.as_ticks_per_minute());
			out.put(format!("{} {} {}", h64(a), h64(b), h64(m)));
			if !rel_close(m, 60.0 * b, 1e-12) || !rel_close(a * b, 1.0, 1e-12) {
				out.oracle_fail("clock_speed_consistent", tok.join(" "));
			}
		}
		"cslerp" => {
			let a = mk_cs(tok[1], p64(tok[2]));
			let b = mk_cs(tok[3], p64(tok[4]));
			let r = ClockSpeed::interpolate(a, b, p64(tok[5]));
			out.put(match r {
				ClockSpeed::SecondsPerTick(v) => format!("spt {}", h64(v)),
				ClockSpeed::TicksPerSecond(v) => format!("tps {}", h64(v)),
				ClockSpeed::TicksPerMinute(v) => format!("tpm {}", h64(v)),
			});
			oracle_cslerp(tok, r, out);
		}
		"ct.from" => {
			let id = ct(0, 0.0).clock;
			let t = ClockTime::from_ticks_f64(id, p64(tok[1]));
			out.put(format!("{} {}", t.ticks, h64(t.fraction)));
		}
		"ct.add" | "ct.sub" => {
			let t = ct(pu(tok[1]), p64(tok[2]));
			let x = p64(tok[3]);
			let r = if tok[0] == "ct.add" { t + x } else { t - x };
			out.put(format!("{} {}", r.ticks, h64(r.fraction)));
			if !(r.fraction >= 0.0 && r.fraction < 1.0) {
				out.oracle_fail("clocktime_fraction", tok.join(" "));
			}
			// add-then-sub returns to the original time to rounding (when not saturating)
			let before = t.ticks as f64 + t.fraction;
			let sub = (tok[0] == "ct.sub") == (x >= 0.0);
			if !(sub && x.abs() > before) && t.ticks < (1 << 40) && x.abs() < 1e6 {
				let back = if tok[0] == "ct.add" { r - x } else { r + x };
				let after = back.ticks as f64 + back.fraction;
				if (after - before).abs() > 1e-6 {
					out.oracle_fail("clocktime_add_sub", tok.join(" "));
				}
				// and the result itself is the arithmetic result
				let want = if tok[0] == "ct.add" { before + x } else { before - x };
				let got = r.ticks as f64 + r.fraction;
				if (got - want).abs() > 1e-6 * want.abs().max(1.0) {
					out.oracle_fail("clocktime_value", tok.join(" "));
				}
			}
		}
		"ct.addu" => {
			let r = ct(pu(tok[1]), p64(tok[2])) + pu(tok[3]);
			out.put(format!("{} {}", r.ticks, h64(r.fraction)));
			// C19 "clock-time arithmetic … exact where promised": adding a whole number of ticks adds
			// them to the tick count in exact integer arithmetic and leaves the fraction alone, also
			// beyond 2^53 (no detour through f64). The generator keeps ticks + n below 2^64.
			let (t, n) = (pu(tok[1]) as u128, pu(tok[3]) as u128);
			if r.ticks as u128 != t + n || r.fraction.to_bits() != p64(tok[2]).to_bits() {
				out.oracle_fail("clocktime_add_whole_ticks", tok.join(" "));
			}
		}
		"ct.subu" => {
			let r = ct(pu(tok[1]), p64(tok[2])) - pu(tok[3]);
			out.put(format!("{} {}", r.ticks, h64(r.fraction)));
		}
		"ct.cmp" => {
			let a = ct(pu(tok[1]), p64(tok[2]));
			let b = ct(pu(tok[3]), p64(tok[4]));
			let c = a.partial_cmp(&b);
			out.put(match c {
				Some(std::cmp::Ordering::Less) => "0",
				Some(std::cmp::Ordering::Equal) => "1",
				Some(std::cmp::Ordering::Greater) => "2",
				None => "3",
			});
			if a.ticks < (1 << 50) && b.ticks < (1 << 50) {
				// ordering agrees with ticks + fraction (lexicographic = numeric for fraction in [0,1))
				let want = (a.ticks, a.fraction).partial_cmp(&(b.ticks, b.fraction));
				if c != want {
					out.oracle_fail("clocktime_order", tok.join(" "));
				}
			}
		}
		"ease" => {
			let e = parse_easing(tok[1]);
			let x = p64(tok[2]);
			let y = kira::verif_hooks::easing_apply(e, x);
			out.put(h64(y));
			let y0 = kira::verif_hooks::easing_apply(e, 0.0);
			let y1 = kira::verif_hooks::easing_apply(e, 1.0);
			if y0 != 0.0 || y1 != 1.0 {
				out.oracle_fail("easing_endpoints", tok.join(" "));
			}
			if (0.0..=1.0).contains(&x) {
				let x2 = (x + 1e-3).min(1.0);
				let y2 = kira::verif_hooks::easing_apply(e, x2);
				if y2 < y - 1e-12 {
					out.oracle_fail("easing_monotone", tok.join(" "));
				}
				if !(-1e-12..=1.0 + 1e-12).contains(&y) {
					out.oracle_fail("easing_range", tok.join(" "));
				}
			}
		}
		"map64" => {
			let m = Mapping {
				input_range: (p64(tok[1]), p64(tok[2])),
				output_range: (p64(tok[3]), p64(tok[4])),
				easing: parse_easing(tok[5]),
			};
			let y = m.map(p64(tok[6]));
			out.put(h64(y));
			let (lo, hi) = (p64(tok[3]).min(p64(tok[4])), p64(tok[3]).max(p64(tok[4])));
			let slack = 1e-9 * (hi - lo).abs().max(lo.abs()).max(hi.abs());
			if !(y >= lo - slack && y <= hi + slack) {
				out.oracle_fail("mapping_clamps", tok.join(" "));
			}
		}
		"map32" => {
			let m = Mapping {
				input_range: (p64(tok[1]), p64(tok[2])),
				output_range: (p32(tok[3]), p32(tok[4])),
				easing: parse_easing(tok[5]),
			};
			out.put(h32(m.map(p64(tok[6]))));
		}
		"lerp64" => out.put(h64(f64::interpolate(p64(tok[1]), p64(tok[2]), p64(tok[3])))),
		"lerp32" => out.put(h32(f32::interpolate(p32(tok[1]), p32(tok[2]), p64(tok[3])))),
		"tween" => {
			let tw = Tween {
				start_time: kira::StartTime::Immediate,
				duration: Duration::from_nanos(pu(tok[2])),
				easing: parse_easing(tok[1]),
			};
			out.put(h64(kira::verif_hooks::tween_value(&tw, p64(tok[3]))));
		}
		_ => {
			if !ct_more_ops(&tok, out) {
				panic!("units: unknown op {}", tok[0])
			}
		}
	}
}

/// C19 "the three clock-speed units convert consistently" applied to `ClockSpeed::interpolate(a, b, t)`:
/// the result is expressed in b's unit and is the straight line from a (converted to b's unit by the
/// documented unit relations: ticks/second = 1 / (seconds/tick), ticks/minute = 60 ticks/second) to b.
/// Expected value computed here from those relations, not from the accessors under test. Endpoints:
/// with a and b in the same unit t = 0 gives a bit-exactly (a + (b - a)·0 has no rounding), t = 1 gives b to
/// rounding. Tolerance: three roundings (conversion, subtraction/product, sum), each ≤ 2^-53 relative to
/// max(|a'|, |b|): 1e-12 is > 4000 of them (the real-number identity is C19_clock_speed_consistent + linearity
/// of the f64 lerp, C06 closed form at ease = id).
fn oracle_cslerp(tok: &[&str], r: ClockSpeed, out: &mut Out) {
	let (ka, va, kb, vb, t) = (tok[1], p64(tok[2]), tok[3], p64(tok[4]), p64(tok[5]));
	if !(va > 0.0 && vb > 0.0 && va.is_finite() && vb.is_finite() && (0.0..=1.0).contains(&t)) {
		return;
	}
	// a in ticks per second, then in b's unit
	let tps = match ka {
		"spt" => 1.0 / va,
		"tps" => va,
		_ => va / 60.0,
	};
	let a_in_b = if ka == kb {
		va
	} else {
		match kb {
			"spt" => 1.0 / tps,
			"tps" => tps,
			_ => tps * 60.0,
		}
	};
	let (kr, vr) = match r {
		ClockSpeed::SecondsPerTick(v) => ("spt", v),
		ClockSpeed::TicksPerSecond(v) => ("tps", v),
		ClockSpeed::TicksPerMinute(v) => ("tpm", v),
	};
	let want = a_in_b + (vb - a_in_b) * t;
	let scale = a_in_b.abs().max(vb.abs());
	if kr != kb || !((vr - want).abs() <= 1e-12 * scale) {
		out.oracle_fail("clock_speed_lerp_linear_in_unit", tok.join(" "));
	}
	if ka == kb && t == 0.0 && vr.to_bits() != va.to_bits() {
		out.oracle_fail("clock_speed_lerp_start_exact", tok.join(" "));
	}
}

fn next_up32(x: f32) -> f32 {
	if x.is_nan() || x == f32::INFINITY {
		return x;
	}
	if x == 0.0 {
		return f32::from_bits(1);
	}
	let b = x.to_bits();
	f32::from_bits(if x > 0.0 { b + 1 } else { b - 1 })
}

pub fn run(ops: &[String]) -> Vec<String> {
	run_cases(ops, None, |case: &[String], out: &mut Out| {
		for l in case {
			let tok: Vec<&str> = l.split_whitespace().collect();
			if tok[0] == "case" {
				out.put(l.clone());
				continue;
			}
			exec(&tok, out);
		}
	})
}

// ---------------------------------------------------------------------------------------------
// the remaining operator impls of `ClockTime` (clock/time.rs): `+=` / `-=` with u64 and f64, `from_ticks_u64`,
// the comparison operators derived from `partial_cmp`, and chains of compound assignments on one variable
// ---------------------------------------------------------------------------------------------

fn gen_ct_more(rng: &mut Rng) -> String {
	match rng.below(10) {
		0..=2 => format!("ct.adda {} {} {}", gen_ticks(rng), o64(gen_frac(rng)), o64(gen_signed_amount(rng))),
		3 | 4 => format!("ct.suba {} {} {}", gen_ticks(rng), o64(gen_frac(rng)), o64(gen_signed_amount(rng))),
		5 => {
			let t = gen_ticks(rng);
			if rng.chance(1, 2) {
				format!("ct.addua {} {} {}", t, o64(gen_frac(rng)), rng.below(1 << 30))
			} else {
				format!("ct.subua {} {} {}", t, o64(gen_frac(rng)), rng.below(t + 1))
			}
		}
		6 => format!("ct.fromu {}", gen_ticks(rng)),
		7 => {
			let t = gen_ticks(rng);
			let f = gen_frac(rng);
			let (t2, f2) = match rng.below(4) {
				0 => (t, f),
				1 => (t, gen_frac(rng)),
				2 => (t + 1, 0.0),
				_ => (gen_ticks(rng), gen_frac(rng)),
			};
			format!("ct.ord {} {} {} {}", t, o64(f), t2, o64(f2))
		}
		_ => {
			// a chain of compound assignments; `lo` is a lower bound of the tick count (no `-= n` below it)
			let t = rng.pick(&[0u64, 1, 5, 100, 1 << 20]);
			let mut lo = t;
			let mut items = vec![];
			for _ in 0..rng.range(2, 8) {
				match rng.below(6) {
					0 => {
						let n = rng.below(1000);
						lo += n;
						items.push(format!("A{}", n));
					}
					1 => {
						let n = rng.below(lo + 1).min(1000);
						lo -= n;
						items.push(format!("S{}", n));
					}
					k => {
						let x = gen_signed_amount(rng);
						let up = (k % 2 == 0) == (x >= 0.0);
						if up {
							lo += x.abs().floor() as u64;
						} else {
							lo = lo.saturating_sub(x.abs().ceil() as u64 + 1);
						}
						items.push(format!("{}{}", if k % 2 == 0 { "a" } else { "s" }, o64(x)));
					}
				}
			}
			format!("ct.seq {} {} {}", t, o64(gen_frac(rng)), items.join(","))
		}
	}
}

/// amounts of either sign (negative ones are forwarded to the opposite operator), with the boundary values
fn gen_signed_amount(rng: &mut Rng) -> f64 {
	let x = match rng.below(8) {
		0 => 0.0,
		1 => 1.0,
		2 => rng.pick(&[1e-20, 1e-17, 0.5, 0.25, 0.75, 2.0, 3.0, 1e-9, 0.9999999999999999]),
		3 => rng.uniform(0.0, 1.0),
		4 => rng.below(1000) as f64,
		5 => rng.uniform(0.0, 10.0),
		_ => rng.uniform(0.0, 1000.0),
	};
	if rng.chance(2, 5) {
		-x
	} else {
		x
	}
}

fn ct_val(t: ClockTime) -> f64 {
	t.ticks as f64 + t.fraction
}

/// returns false for an op it does not know
fn ct_more_ops(tok: &[&str], out: &mut Out) -> bool {
	let show = |t: ClockTime| format!("{} {}", t.ticks, h64(t.fraction));
	match tok[0] {
		"ct.adda" | "ct.suba" => {
			let add = tok[0] == "ct.adda";
			let t = ct(pu(tok[1]), p64(tok[2]));
			let x = p64(tok[3]);
			let mut a = t;
			if add {
				a += x;
			} else {
				a -= x;
			}
			out.put(show(a));
			// the fraction of a clock time stays in [0, 1)
			if !(a.fraction >= 0.0 && a.fraction < 1.0) {
				out.oracle_fail("clocktime_assign_fraction", tok.join(" "));
			}
			// `a += x` is `a = a + x`, `a -= x` is `a = a - x` (the meaning of a compound assignment)
			let b = if add { t + x } else { t - x };
			if a.ticks != b.ticks || a.fraction.to_bits() != b.fraction.to_bits() {
				out.oracle_fail("clocktime_assign_eq_binary", tok.join(" "));
			}
			// add then subtract returns; the result is the arithmetic result (when nothing saturates at tick 0)
			let before = ct_val(t);
			let goes_down = add != (x >= 0.0);
			if !(goes_down && x.abs() > before - 1e-6) && t.ticks < (1 << 40) && x.abs() < 1e6 {
				let mut back = a;
				if add {
					back -= x;
				} else {
					back += x;
				}
				if (ct_val(back) - before).abs() > 1e-6 {
					out.oracle_fail("clocktime_assign_add_sub", tok.join(" "));
				}
				let want = if add { before + x } else { before - x };
				if (ct_val(a) - want).abs() > 1e-6 * want.abs().max(1.0) {
					out.oracle_fail("clocktime_assign_value", tok.join(" "));
				}
			}
		}
		"ct.addua" | "ct.subua" => {
			let add = tok[0] == "ct.addua";
			let t = ct(pu(tok[1]), p64(tok[2]));
			let n = pu(tok[3]);
			let mut a = t;
			if add {
				a += n;
			} else {
				a -= n;
			}
			out.put(show(a));
			let b = if add { t + n } else { t - n };
			let want = if add { t.ticks + n } else { t.ticks - n };
			if a != b || a.ticks != want || a.fraction.to_bits() != t.fraction.to_bits() {
				out.oracle_fail("clocktime_assign_whole_ticks", tok.join(" "));
			}
		}
		"ct.fromu" => {
			let id = ct(0, 0.0).clock;
			let t = ClockTime::from_ticks_u64(id, pu(tok[1]));
			out.put(show(t));
			if t.ticks != pu(tok[1]) || t.fraction != 0.0 || t.clock != id {
				out.oracle_fail("clocktime_from_whole_ticks", tok.join(" "));
			}
		}
		"ct.ord" => {
			let a = ct(pu(tok[1]), p64(tok[2]));
			let b = ct(pu(tok[3]), p64(tok[4]));
			let bits = [a < b, a <= b, a > b, a >= b, a == b];
			out.put(bits.iter().map(|c| if *c { "1" } else { "0" }).collect::<Vec<_>>().join(" "));
			// fractions are in [0, 1): lexicographic order on (ticks, fraction) is the numeric order of the times
			let k = (a.ticks, a.fraction);
			let l = (b.ticks, b.fraction);
			if bits != [k < l, k <= l, k > l, k >= l, k == l] {
				out.oracle_fail("clocktime_operators", tok.join(" "));
			}
		}
		"ct.seq" => {
			let t0 = ct(pu(tok[1]), p64(tok[2]));
			let mut a = t0;
			// the same history with the binary operators, and as plain arithmetic
			let mut b = t0;
			let (mut want, mut exact, mut bad_fraction) = (ct_val(t0), true, false);
			for item in tok[3].split(',') {
				let (k, v) = item.split_at(1);
				match k {
					"a" => {
						a += p64(v);
						b = b + p64(v);
						want += p64(v);
					}
					"s" => {
						a -= p64(v);
						b = b - p64(v);
						want -= p64(v);
					}
					"A" => {
						a += pu(v);
						b = b + pu(v);
						want += pu(v) as f64;
					}
					_ => {
						a -= pu(v);
						b = b - pu(v);
						want -= pu(v) as f64;
					}
				}
				// a time below tick 0 saturates: the arithmetic comparison no longer applies (margin: `want` is rounded)
				if want < 1e-6 {
					exact = false;
				}
				bad_fraction |= !(a.fraction >= 0.0 && a.fraction < 1.0);
			}
			out.put(show(a));
			if bad_fraction {
				out.oracle_fail("clocktime_assign_fraction", tok.join(" "));
			}
			if a.ticks != b.ticks || a.fraction.to_bits() != b.fraction.to_bits() {
				out.oracle_fail("clocktime_assign_eq_binary", tok.join(" "));
			}
			if exact && (ct_val(a) - want).abs() > 1e-6 * want.abs().max(1.0) {
				out.oracle_fail("clocktime_assign_value", tok.join(" "));
			}
		}
		_ => return false,
	}
	true
}
