//! Suite `storage` (C08): `kira::verif_hooks::{HStorage, HSelfRefStorage, HController}` — the real
//! `ResourceStorage` / `SelfReferentialResourceStorage` / `ResourceController` of backend/resources.rs.
//!
//! ops:  new plain|self <cap>
//!       reserve            try_reserve                         → ok <i.g> len=N | limit len=N
//!       inskl              insert_with_key(latest fresh key)   → ok len=N dropped=<ids> | skip
//!       insk <j>           insert_with_key(j-th key ever reserved) (also used for out-of-protocol histories)
//!       ins                insert(resource)                    → ok <i.g> len=N dropped=… | limit len=N dropped=<id>
//!       mark <id>          set the removed flag of resource id
//!       raa                remove_and_add(|r| marked(r))       → ok len=N items=<i.g:id:visits,…> dropped=…
//!       get <j>            get_mut(j-th key)                   → some <id> | none          (plain only)
//!       each               for_each                            → each <id>><what its own key resolves to>,…  (self only)
//!       len | items
//!       par <fine> <script> <g ops,…|-> <a ops,…|->   two threads interleaved at the yield sites
//! Resources are numbered 0,1,2,… in creation order; `dropped=` lists the ids destroyed during the op.
use crate::runner::{run_cases, Out};
use crate::sched;
use crate::util::*;
use atomic_arena::Key;
use kira::verif_hooks::{key_repr, HController, HSelfRefStorage, HStorage};
use std::collections::{BTreeMap, HashSet};
use std::panic::{catch_unwind, resume_unwind, AssertUnwindSafe};
use std::sync::{Arc, Mutex};
use std::time::Duration;

const DUMMY: u64 = 999999;
pub const SITE_AFTER_DRAIN: &str = "resources.insert_with_key.after_drain";
pub const SITE_BETWEEN: &str = "resources.remove_and_add.between";
pub const SITE_SELF_BETWEEN: &str = "resources.selfref.remove_and_add.between";
pub const SITE_IN_DRAIN: &str = "resources.remove_and_add.in_drain";

type Log = Arc<Mutex<Vec<u64>>>;

pub struct Probe {
	id: u64,
	visits: u64,
	key: Option<Key>,
	log: Option<Log>,
}
impl Default for Probe {
	fn default() -> Self {
		Probe {
			id: DUMMY,
			visits: 0,
			key: None,
			log: None,
		}
	}
}
impl Drop for Probe {
	fn drop(&mut self) {
		if let Some(l) = &self.log {
			l.lock().unwrap().push(self.id);
		}
	}
}

pub fn show_key(k: Key) -> String {
	// "Key { index: 0, generation: 0 }"
	let s = key_repr(k);
	let nums: Vec<String> = s
		.split(|c: char| !c.is_ascii_digit())
		.filter(|x| !x.is_empty())
		.map(|x| x.to_string())
		.collect();
	format!("{}.{}", nums[0], nums[1])
}

/// Does /repo have the (requested) yield site inside the drain loop?
pub fn has_in_drain_site() -> bool {
	let (mut s, mut c) = HStorage::<u32>::new(1);
	c.insert(7).unwrap();
	s.remove_and_add(|_| false);
	sched::site_fires(SITE_IN_DRAIN, move || s.remove_and_add(|_| true))
}

// ------------------------------------------------------------------------------------------------
// generator
// ------------------------------------------------------------------------------------------------

pub fn gen(rng: &mut Rng, n: usize, thorough: bool, stats: &mut Stats) -> Vec<String> {
	let fine_site = has_in_drain_site();
	stats.add("in_drain_site_present", fine_site as u64);
	let mut out = vec![];
	for case in 0..n {
		out.push(format!("case {}", case));
		if fine_site && case % 50 == 7 {
			// the interleaving of Props/C08.lean::overflowWitness (needs the in-drain yield site)
			out.extend(overflow_witness());
			stats.hit("overflow_witness");
			continue;
		}
		let selfref = rng.chance(2, 5);
		let cap = match rng.below(12) {
			0 => 0,
			1..=3 => 1,
			4..=6 => 2,
			7..=9 => 3,
			_ => 4,
		};
		out.push(format!("new {} {}", if selfref { "self" } else { "plain" }, cap));
		stats.hit(if cap == 0 { "cap0" } else { "cap>0" });
		let misuse = rng.chance(1, 25);
		let with_par = rng.chance(2, 5);
		let nops = 6 + rng.below(if thorough { 60 } else { 30 });
		let mut ids = 0u64; // upper bound on resource ids created so far
		let mut nkeys = 0u64;
		for _ in 0..nops {
			let create = |rng: &mut Rng, ids: &mut u64, nkeys: &mut u64| -> Vec<String> {
				*ids += 1;
				*nkeys += 1;
				if selfref || rng.chance(1, 2) {
					vec!["reserve".into(), "inskl".into()]
				} else {
					vec!["ins".into()]
				}
			};
			match rng.below(20) {
				0..=5 => {
					out.extend(create(rng, &mut ids, &mut nkeys));
					stats.hit("create");
				}
				6..=9 => {
					if ids > 0 {
						// bias towards recent resources
						let id = if rng.chance(1, 2) { ids - 1 - rng.below(ids.min(3)) } else { rng.below(ids) };
						out.push(format!("mark {}", id));
						stats.hit("mark");
					}
				}
				10..=13 => {
					out.push("raa".into());
					stats.hit("raa");
				}
				14 => {
					if !selfref && nkeys > 0 {
						out.push(format!("get {}", rng.below(nkeys)));
						stats.hit("get");
					} else {
						out.push("len".into());
					}
				}
				15 => {
					out.push(if selfref { "each".into() } else { "items".to_string() });
					stats.hit("each/items");
				}
				16 => {
					// fill up: create until the limit is hit
					for _ in 0..(cap + 1) {
						out.extend(create(rng, &mut ids, &mut nkeys));
					}
					stats.hit("fill");
				}
				17 => {
					if misuse && nkeys > 0 {
						ids += 1;
						out.push(format!("insk {}", rng.below(nkeys)));
						stats.hit("misuse_insk");
					} else {
						out.push("len".into());
					}
				}
				_ => {
					if with_par {
						let mut g = vec![];
						for _ in 0..(1 + rng.below(3)) {
							match rng.below(4) {
								0 if ids > 0 => g.push(format!("mark:{}", rng.below(ids))),
								_ => {
									ids += 1;
									nkeys += 1;
									if selfref || rng.chance(1, 2) {
										g.push("reserve".into());
										g.push("inskl".into());
									} else {
										g.push("ins".into());
									}
								}
							}
						}
						let mut a = vec![];
						for _ in 0..(1 + rng.below(2)) {
							a.push("raa".to_string());
						}
						if selfref && rng.chance(1, 3) {
							a.push("each".into());
						}
						let len = rng.below(10);
						let script: String = (0..len).map(|_| if rng.chance(1, 2) { 'g' } else { 'a' }).collect();
						let fine = if fine_site && !selfref && rng.chance(1, 2) { 1 } else { 0 };
						out.push(format!(
							"par {} {} {} {}",
							fine,
							if script.is_empty() { "-".to_string() } else { script },
							g.join(","),
							a.join(",")
						));
						stats.hit("par");
					} else {
						out.push("raa".into());
					}
				}
			}
		}
	}
	out
}

/// Props/C08.lean::overflowWitness as ops (capacity 1, three callbacks); needs the in-drain yield site.
pub fn overflow_witness() -> Vec<String> {
	vec![
		"new plain 1".into(),
		"ins".into(),
		"raa".into(),
		"mark 0".into(),
		// callback 2 races the creation of B: A is taken out of the arena (slot free) → gameplay reserves,
		// drains (nothing yet) → A pushed to the unused ring → B shipped → B inserted
		"par 1 agag ins raa".into(),
		"mark 1".into(),
		"raa".into(),
	]
}

// ------------------------------------------------------------------------------------------------
// the real code
// ------------------------------------------------------------------------------------------------

enum Sto {
	None,
	Plain(HStorage<Probe>),
	SelfRef(HSelfRefStorage<Probe>),
}

#[derive(Clone, Copy, PartialEq, Debug)]
enum Where {
	Ring,
	Arena,
	Gone,
}

struct St {
	sto: Sto,
	ctrl: Option<HController<Probe>>,
	cap: usize,
	keys: Vec<Key>,
	fresh: Option<Key>,
	next_id: u64,
	marked: Arc<Mutex<HashSet<u64>>>,
	log: Log,
	log_pos: usize,
	// ---- oracle shadow (an independent statement of the property, not the model) ----
	/// false once the history has left the protocol kira follows (a key used twice, …)
	protocol_ok: bool,
	exact: bool,
	reserved: usize,
	place: BTreeMap<u64, (Key, Where)>,
	order: Vec<u64>,
	gone_keys: Vec<Key>,
}

impl St {
	fn new() -> Self {
		St {
			sto: Sto::None,
			ctrl: None,
			cap: 0,
			keys: vec![],
			fresh: None,
			next_id: 0,
			marked: Arc::new(Mutex::new(HashSet::new())),
			log: Arc::new(Mutex::new(vec![])),
			log_pos: 0,
			protocol_ok: true,
			exact: true,
			reserved: 0,
			place: BTreeMap::new(),
			order: vec![],
			gone_keys: vec![],
		}
	}
	fn dropped(&mut self) -> Vec<u64> {
		let l = self.log.lock().unwrap();
		let d = l[self.log_pos..].to_vec();
		self.log_pos = l.len();
		d
	}
	fn expected_len(&self) -> usize {
		self.reserved + self.place.values().filter(|(_, w)| *w != Where::Gone).count()
	}
}

fn show_ids(v: &[u64]) -> String {
	if v.is_empty() {
		"-".into()
	} else {
		v.iter().map(|x| x.to_string()).collect::<Vec<_>>().join(".")
	}
}

fn probe(id: u64, key: Option<Key>, log: &Log) -> Probe {
	Probe {
		id,
		visits: 0,
		key,
		log: Some(log.clone()),
	}
}

fn items_of(sto: &mut Sto) -> Vec<(Key, u64, u64)> {
	match sto {
		Sto::None => vec![],
		Sto::Plain(s) => s.items().into_iter().map(|(k, r)| (k, r.id, r.visits)).collect(),
		Sto::SelfRef(s) => s.items().into_iter().map(|(k, r)| (k, r.id, r.visits)).collect(),
	}
}
fn show_items(v: &[(Key, u64, u64)]) -> String {
	if v.is_empty() {
		"-".into()
	} else {
		v.iter()
			.map(|(k, id, vis)| format!("{}:{}:{}", show_key(*k), id, vis))
			.collect::<Vec<_>>()
			.join(",")
	}
}

/// gameplay-side ops (usable from the gameplay thread of a `par`)
fn g_op(
	ctrl: &mut HController<Probe>,
	keys: &mut Vec<Key>,
	fresh: &mut Option<Key>,
	next_id: &mut u64,
	marked: &Arc<Mutex<HashSet<u64>>>,
	log: &Log,
	log_pos: &mut usize,
	tok: &[&str],
) -> String {
	let dropped = |log_pos: &mut usize| -> String {
		let l = log.lock().unwrap();
		let d = l[*log_pos..].to_vec();
		*log_pos = l.len();
		show_ids(&d)
	};
	match tok[0] {
		"reserve" => match ctrl.try_reserve() {
			Ok(k) => {
				keys.push(k);
				*fresh = Some(k);
				format!("ok {} len={}", show_key(k), ctrl.len())
			}
			Err(_) => {
				*fresh = None;
				format!("limit len={}", ctrl.len())
			}
		},
		"inskl" | "insk" => {
			let k = if tok[0] == "inskl" {
				match fresh.take() {
					Some(k) => k,
					None => return "skip".into(),
				}
			} else {
				match keys.get(pu(tok[1]) as usize) {
					Some(k) => *k,
					None => return "bad-op".into(),
				}
			};
			let id = *next_id;
			*next_id += 1;
			ctrl.insert_with_key(k, probe(id, Some(k), log));
			format!("ok len={} dropped={}", ctrl.len(), dropped(log_pos))
		}
		"ins" => {
			let id = *next_id;
			*next_id += 1;
			match ctrl.insert(probe(id, None, log)) {
				Ok(k) => {
					keys.push(k);
					format!("ok {} len={} dropped={}", show_key(k), ctrl.len(), dropped(log_pos))
				}
				Err(_) => format!("limit len={} dropped={}", ctrl.len(), dropped(log_pos)),
			}
		}
		"mark" => {
			marked.lock().unwrap().insert(pu(tok[1]));
			"ok".into()
		}
		"len" => format!("len={} cap={}", ctrl.len(), ctrl.capacity()),
		_ => "bad-op".into(),
	}
}

/// audio-side ops
fn a_op(
	sto: &mut Sto,
	marked: &Arc<Mutex<HashSet<u64>>>,
	len: impl Fn() -> usize,
	log: &Log,
	log_pos_a: &mut usize,
	par: bool,
	tok: &[&str],
) -> String {
	match tok[0] {
		"raa" => {
			let m = marked.clone();
			let test = move |r: &Probe| m.lock().unwrap().contains(&r.id);
			match sto {
				Sto::None => return "bad-op".into(),
				Sto::Plain(s) => s.remove_and_add(test),
				Sto::SelfRef(s) => s.remove_and_add(test),
			}
			let items = items_of(sto);
			if par {
				// inside `par` the controller lives on the other thread: no len, drops accounted globally
				return format!("ok items={}", show_items(&items));
			}
			let l = log.lock().unwrap();
			let d = l[*log_pos_a..].to_vec();
			*log_pos_a = l.len();
			format!("ok len={} items={} dropped={}", len(), show_items(&items), show_ids(&d))
		}
		"each" => match sto {
			Sto::SelfRef(s) => {
				let mut seen: Vec<(u64, Option<u64>)> = vec![];
				s.for_each(|r, arena| {
					let me = r.key.and_then(|k| arena.get(k)).map(|x| x.id);
					seen.push((r.id, me));
					r.visits += 1;
				});
				if seen.is_empty() {
					"each -".into()
				} else {
					format!(
						"each {}",
						seen.iter()
							.map(|(id, me)| format!(
								"{}>{}",
								id,
								match me {
									Some(DUMMY) => "dummy".to_string(),
									Some(x) => x.to_string(),
									None => "none".to_string(),
								}
							))
							.collect::<Vec<_>>()
							.join(",")
					)
				}
			}
			_ => "na".into(),
		},
		"items" => format!("items={}", show_items(&items_of(sto))),
		_ => "bad-op".into(),
	}
}

pub fn run(ops: &[String]) -> Vec<String> {
	run_cases(ops, Some(Duration::from_secs(60)), |case, out| {
		let mut st = St::new();
		crate::seqop::drive(case, out, &mut st, |st, line, detail, out| op(st, line, detail, out));
	})
}

fn op(st: &mut St, line: &str, detail: &str, out: &mut Out) -> String {
	let tok: Vec<&str> = line.split_whitespace().collect();
	match tok[0] {
		"new" => {
			let cap = pu(tok[2]) as usize;
			*st = St::new();
			st.cap = cap;
			if tok[1] == "plain" {
				let (s, c) = HStorage::<Probe>::new(cap);
				st.sto = Sto::Plain(s);
				st.ctrl = Some(c);
			} else {
				let (s, c) = HSelfRefStorage::<Probe>::new(cap);
				st.sto = Sto::SelfRef(s);
				st.ctrl = Some(c);
			}
			"ok".into()
		}
		"reserve" | "inskl" | "insk" | "ins" | "mark" | "len" => {
			if st.ctrl.is_none() {
				return "bad-op".into();
			}
			let before_len = st.expected_len();
			if tok[0] == "insk" {
				st.exact = false; // out-of-protocol history: only the twin judges it
				st.protocol_ok = false;
			}
			let St {
				ctrl,
				keys,
				fresh,
				next_id,
				marked,
				log,
				log_pos,
				..
			} = st;
			let ctrl = ctrl.as_mut().unwrap();
			let had_fresh = *fresh;
			let nkeys = keys.len();
			let id0 = *next_id;
			// C08: creation never panics — capacity 0 must give the limit error
			let r = catch_unwind(AssertUnwindSafe(|| g_op(ctrl, keys, fresh, next_id, marked, log, log_pos, &tok)));
			let r = match r {
				Ok(r) => r,
				Err(p) => {
					if st.cap == 0 && (tok[0] == "reserve" || tok[0] == "ins") {
						out.oracle_fail("capacity_zero_panics", detail);
					} else if st.exact {
						out.oracle_fail("create_panics", detail);
					}
					resume_unwind(p)
				}
			};
			// ---- oracles ----
			match tok[0] {
				"reserve" => {
					if st.exact {
						let ok = r.starts_with("ok");
						if ok != (before_len < st.cap) {
							out.oracle_fail("limit_iff_full", detail);
						}
						if ok {
							st.reserved += 1;
						}
					}
				}
				"inskl" | "insk" => {
					if r.starts_with("ok") {
						let k = if tok[0] == "inskl" { had_fresh.unwrap() } else { st.keys[pu(tok[1]) as usize] };
						let fresh_use = tok[0] == "inskl";
						if !fresh_use {
							st.exact = false; // out-of-protocol history: only the twin judges it
						}
						if st.exact {
							st.reserved -= 1;
							st.place.insert(id0, (k, Where::Ring));
						}
					}
				}
				"ins" => {
					if st.exact {
						let ok = r.starts_with("ok");
						if ok != (before_len < st.cap) {
							out.oracle_fail("limit_iff_full", detail);
						}
						if ok {
							st.place.insert(id0, (st.keys[nkeys], Where::Ring));
						}
					}
				}
				_ => {}
			}
			if st.exact && tok[0] != "mark" {
				let len = st.ctrl.as_ref().unwrap().len();
				if len != st.expected_len() {
					out.oracle_fail("count_exact", detail);
				}
				if len > st.cap {
					out.oracle_fail("count_le_capacity", detail);
				}
			}
			r
		}
		"raa" | "each" | "items" => {
			let St { sto, ctrl, marked, log, log_pos, .. } = st;
			let c = ctrl.as_ref();
			let r = catch_unwind(AssertUnwindSafe(|| {
				a_op(sto, marked, || c.map(|c| c.len()).unwrap_or(0), log, log_pos, false, &tok)
			}));
			let r = match r {
				Ok(r) => r,
				Err(p) => {
					// C08: neither ring push can fail, nothing on the audio side panics
					if st.protocol_ok {
						out.oracle_fail("audio_side_panics", detail);
					}
					resume_unwind(p)
				}
			};
			if tok[0] == "raa" {
				if !r.ends_with("dropped=-") {
					out.oracle_fail("destroyed_on_audio_side", detail);
				}
				if st.exact {
					// prompt removal: flagged resources that were in the arena are out, those in the ring are in
					let m = st.marked.lock().unwrap().clone();
					let mut newly: Vec<u64> = vec![];
					for (id, (k, w)) in st.place.iter_mut() {
						match *w {
							Where::Arena if m.contains(id) => {
								*w = Where::Gone;
								st.gone_keys.push(*k);
							}
							Where::Ring => {
								*w = Where::Arena;
								newly.push(*id);
							}
							_ => {}
						}
					}
					st.order.retain(|id| st.place[id].1 == Where::Arena);
					st.order.extend(newly);
					let items = items_of(&mut st.sto);
					let mut got: Vec<u64> = items.iter().map(|x| x.1).collect();
					let mut want: Vec<u64> = st.place.iter().filter(|(_, v)| v.1 == Where::Arena).map(|(k, _)| *k).collect();
					got.sort();
					want.sort();
					if got != want {
						out.oracle_fail("prompt_removal", detail);
					}
					let len = st.ctrl.as_ref().unwrap().len();
					if len != st.expected_len() {
						out.oracle_fail("count_exact", detail);
					}
					// stale ids: a removed key never resolves again
					if let Sto::Plain(s) = &mut st.sto {
						for k in &st.gone_keys {
							if s.get_mut(*k).is_some() {
								out.oracle_fail("stale_id_resolves", detail);
							}
						}
					}
				}
			}
			if tok[0] == "each" && st.exact && r.starts_with("each") {
				// every resource visited exactly once, in insertion order, its own id resolving to the dummy
				let want: Vec<String> = st.order.iter().map(|id| format!("{}>dummy", id)).collect();
				let want = if want.is_empty() { "each -".to_string() } else { format!("each {}", want.join(",")) };
				if r != want {
					out.oracle_fail("selfref_for_each", detail);
				}
			}
			r
		}
		"get" => match (&mut st.sto, st.keys.get(pu(tok[1]) as usize)) {
			(Sto::Plain(s), Some(k)) => match s.get_mut(*k) {
				Some(r) => format!("some {}", r.id),
				None => "none".into(),
			},
			_ => "na".into(),
		},
		"par" => {
			let fine = tok[1] == "1";
			let script = sched::parse_script(tok[2]);
			let split = |s: &str| -> Vec<Vec<String>> {
				if s == "-" {
					vec![]
				} else {
					s.split(',').map(|o| o.split(':').map(|x| x.to_string()).collect()).collect()
				}
			};
			let gops = split(tok[3]);
			let aops = split(tok[4]);
			if st.ctrl.is_none() {
				return "bad-op".into();
			}
			st.exact = false;
			let mut sites = vec![SITE_AFTER_DRAIN, SITE_BETWEEN, SITE_SELF_BETWEEN];
			if fine {
				sites.push(SITE_IN_DRAIN);
			}
			let St {
				sto,
				ctrl,
				keys,
				fresh,
				next_id,
				marked,
				log,
				log_pos,
				cap,
				..
			} = st;
			let ctrl = ctrl.as_mut().unwrap();
			let marked_g = marked.clone();
			let marked_a = marked.clone();
			let log_g = log.clone();
			let log_a = log.clone();
			let mut pos_g = *log_pos;
			let cap = *cap;
			let (rg, ra) = sched::run2(
				&script,
				&sites,
				move || {
					let mut res = vec![];
					let mut over = false;
					for o in &gops {
						let t: Vec<&str> = o.iter().map(|x| x.as_str()).collect();
						let r = g_op(ctrl, keys, fresh, next_id, &marked_g, &log_g, &mut pos_g, &t);
						if let Some(p) = r.find("len=") {
							let n: usize = r[p + 4..].split(|c: char| !c.is_ascii_digit()).next().unwrap().parse().unwrap();
							over |= n > cap;
						}
						res.push(r);
					}
					(res, over, pos_g)
				},
				move || {
					let mut res = vec![];
					let mut pos = 0usize;
					for o in &aops {
						let t: Vec<&str> = o.iter().map(|x| x.as_str()).collect();
						res.push(a_op(sto, &marked_a, || 0, &log_a, &mut pos, true, &t));
					}
					res
				},
			);
			let (gres, over, pos_g) = match rg {
				Ok(x) => x,
				Err(m) => panic!("{}", m),
			};
			let ares = match ra {
				Ok(x) => x,
				Err(m) => {
					if st.protocol_ok {
						out.oracle_fail("audio_side_panics", detail);
					}
					panic!("{}", m)
				}
			};
			st.log_pos = pos_g.max(st.log_pos);
			// anything dropped and not reported by a gameplay op was dropped elsewhere
			let rest = st.dropped();
			if !rest.is_empty() {
				out.oracle_fail("destroyed_on_audio_side", detail);
			}
			if over {
				out.oracle_fail("count_le_capacity", detail);
			}
			let j = |v: &Vec<String>| {
				if v.is_empty() {
					"-".to_string()
				} else {
					v.iter().map(|s| s.replace(' ', "_")).collect::<Vec<_>>().join(";")
				}
			};
			format!("par g={} a={}", j(&gres), j(&ares))
		}
		_ => "bad-op".into(),
	}
}

