pub fn gen(_: &mut crate::util::Rng, _: usize, _: bool, _: &mut crate::util::Stats) -> Vec<String> { vec![] }
pub fn run(_: &[String]) -> Vec<String> { vec![] }
