//! Suite `modsys` (C17, system level): an `AudioManager<ProbeBackend>` with modulators added / commanded /
//! dropped between device callbacks of varying sizes; readers: the main track's volume
//! (`Parameter<Decibels>`, observed as the gain envelope of constant sounds) and the `Parameter<f64>` of
//! `ParamProbeSound`s; observers: `ProbeModulator`s (user-defined modulators that count their updates and
//! record what `Info` tells them about every modulator) and an always-present observer sound.
//! Public API only.
//!
//! ops:  init <sample rate> <internal buffer size> <modulator capacity>            → ok
//!       add_lfo <waveform> <frequency> <amplitude> <offset> <starting phase>      → ok <k> | full
//!       add_tw <initial>                                                          → ok <k> | full
//!       add_probe                                                                 → ok <k> | full
//!       lfo.set_frequency|lfo.set_amplitude|lfo.set_offset <k> <value> <tween>    → ok | nohandle
//!       lfo.set_waveform <k> <waveform>    lfo.set_phase <k> <phase>              → ok | nohandle
//!       tw.set <k> <target> <tween>                                               → ok | nohandle
//!       drop <k>                                                                  → ok
//!       main.set_volume <value dB> <tween>                                        → ok
//!       play <value f64> <default>         (a ParamProbeSound on the main track)  → ok
//!       callback <frames>                  (on_start_processing + process, 2 channels)
//!           → cb <chunks> { / n=<frames> d=<dt> u=[<k>@<dt>:<value>:<seen>;…] m=<seen> p=[<param>,…] o=<left samples> }
//! values: fix:<v> | mod:<k>:<in0>,<in1>,<out0>,<out1>,<easing>   (k = number of a modulator of this case)
//! <seen> = what `info.modulator_value` answered for modulators 0..: value or `-`
use crate::probe::{
	self, ParamProbeSoundData, ProbeBackend, ProbeModulatorBuilder, ProbeModulatorHandle, SysEvent, SysLog, WatchList,
};
use crate::runner::{run_cases, Out};
use crate::suites::lfo::{gen_fixed, gen_phase, gen_waveform, parse_waveform, reference_wave, wf_name};
use crate::suites::param::{gen_duration_ns, parse_tween, parse_value, Ids};
use crate::suites::units::{fmt_easing, gen_easing};
use crate::util::*;
use kira::modulator::lfo::{LfoBuilder, LfoHandle, Waveform};
use kira::modulator::tweener::{TweenerBuilder, TweenerHandle};
use kira::modulator::ModulatorId;
use kira::track::MainTrackBuilder;
use kira::{AudioManager, Capacities, Decibels, Easing, Frame, Mapping, StartTime, Tween, Value};
use std::f64::consts::TAU;
use std::sync::{Arc, Mutex};

const S0_LEVEL: f32 = 0.25;
const SN_LEVEL: f32 = 0.0625;
const MAX_PLAYS: usize = 3;

enum Handle {
	Lfo(LfoHandle),
	Tw(TweenerHandle),
	Probe(ProbeModulatorHandle),
}

#[derive(Default)]
struct LfoPending {
	frequency: bool,
	amplitude: bool,
	waveform: Option<Waveform>,
	phase: Option<f64>,
	offset: Option<(Value<f64>, Tween)>,
}
struct LfoBook {
	waveform: Waveform,
	/// all three settings fixed at creation and no command consumed so far: (f, a, o, phase0 in cycles)
	fixed: Option<(f64, f64, f64, f64)>,
	elapsed: f64,
	/// amplitude is `Fixed(0.0)` and was never commanded: value() == offset parameter
	amp_zero: bool,
	/// the offset is (now, idle) linked to modulator j through this mapping
	follow: Option<(usize, Mapping<f64>)>,
	pending: LfoPending,
	last: Option<f64>,
}
struct TwBook {
	pending: Option<(f64, Tween)>,
	/// (start, target, duration s, elapsed s, linear easing)
	flight: Option<(f64, f64, f64, f64, bool)>,
	landed_on: Option<f64>,
	last: f64,
}
enum Book {
	Lfo(LfoBook),
	Tw(TwBook),
	Probe,
}
struct ModEntry {
	id: ModulatorId,
	handle: Option<Handle>,
	book: Book,
	in_store: bool,
	gone: bool,
	chunks_alive: u64,
}
struct SoundBook {
	link: Option<(usize, Mapping<f64>)>,
	last_param: f64,
	active: bool,
}
struct Sys {
	manager: AudioManager<ProbeBackend>,
	dt: f64,
	ibs: usize,
	log: SysLog,
	watch: WatchList,
	mods: Vec<ModEntry>,
	sounds: Vec<SoundBook>,
	s0_active: bool,
	/// main volume: pending command; active zero-duration link
	main_pending: Option<(Value<Decibels>, Tween)>,
	main_link: Option<(usize, Mapping<Decibels>)>,
	last_gain_sample: Option<f32>,
	last_level: Option<f32>,
	hold_chunks: u32,
}

fn ids_of(s: &Sys) -> Ids {
	Ids { clocks: vec![], mods: s.mods.iter().map(|m| m.id).collect() }
}
fn seen_str(seen: &[Option<f64>]) -> String {
	seen.iter().map(|v| v.map(h64).unwrap_or_else(|| "-".into())).collect::<Vec<_>>().join(",")
}
fn zero_immediate(tw: &Tween) -> bool {
	matches!(tw.start_time, StartTime::Immediate) && tw.duration.is_zero()
}

#[derive(Default)]
struct ChunkObs {
	mods: Vec<(usize, f64, f64, Vec<Option<f64>>)>,
	sounds: Vec<(usize, usize, f64, f64, Vec<Option<f64>>)>,
	disorder: bool,
}

fn add_result(s: &mut Sys, r: Result<(ModulatorId, Handle, Book), ()>, out: &mut Out) {
	match r {
		Ok((id, h, book)) => {
			s.watch.lock().unwrap().push(id);
			s.mods.push(ModEntry { id, handle: Some(h), book, in_store: false, gone: false, chunks_alive: 0 });
			out.put(format!("ok {}", s.mods.len() - 1));
		}
		Err(()) => out.put("full"),
	}
}

/// report an oracle failure once per callback and kind (kind = name + detail with the numbers removed)
fn ofail(out: &mut Out, reported: &mut Vec<String>, name: &str, detail: impl std::fmt::Display) {
	let detail = detail.to_string();
	let class = detail.split(" :: ").nth(1).unwrap_or("");
	let key: String = format!("{} {}", name, class.chars().filter(|c| !c.is_ascii_digit()).collect::<String>());
	if !reported.contains(&key) {
		reported.push(key);
		out.oracle_fail(name, detail);
	}
}

fn callback(s: &mut Sys, frames: usize, l: &str, out: &mut Out) {
	let mut reported: Vec<String> = vec![];
	// ---- expected bookkeeping at on_start_processing (what the property says should happen) ----
	for m in s.mods.iter_mut() {
		if m.in_store && m.handle.is_none() {
			m.in_store = false;
			m.gone = true;
		}
	}
	for m in s.mods.iter_mut() {
		if !m.in_store && !m.gone {
			m.in_store = true;
		}
	}
	for m in s.mods.iter_mut() {
		if !m.in_store {
			continue;
		}
		match &mut m.book {
			Book::Tw(b) => {
				if let Some((target, tw)) = b.pending.take() {
					b.landed_on = None;
					b.flight = match tw.start_time {
						StartTime::Immediate => {
							Some((b.last, target, tw.duration.as_secs_f64(), 0.0, matches!(tw.easing, Easing::Linear)))
						}
						_ => None,
					};
				}
			}
			Book::Lfo(b) => {
				let p = std::mem::take(&mut b.pending);
				if p.frequency || p.amplitude || p.waveform.is_some() || p.phase.is_some() || p.offset.is_some() {
					b.fixed = None;
				}
				if p.amplitude {
					b.amp_zero = false;
				}
				if let Some(w) = p.waveform {
					b.waveform = w;
				}
				if let Some((v, tw)) = p.offset {
					b.follow = match v {
						Value::FromModulator { id, mapping } if zero_immediate(&tw) => {
							s.watch.lock().unwrap().iter().position(|x| *x == id).map(|j| (j, mapping))
						}
						_ => None,
					};
				}
			}
			Book::Probe => {}
		}
	}
	if let Some((v, tw)) = s.main_pending.take() {
		s.main_link = match v {
			Value::FromModulator { id, mapping } if zero_immediate(&tw) => {
				s.watch.lock().unwrap().iter().position(|x| *x == id).map(|j| (j, mapping))
			}
			_ => None,
		};
		s.hold_chunks = 0;
	}
	s.s0_active = true;
	for sb in s.sounds.iter_mut() {
		sb.active = true;
	}
	let n_sounds = 1 + s.sounds.len();
	let level = S0_LEVEL + SN_LEVEL * s.sounds.len() as f32;

	// ---- the real thing ----
	s.log.lock().unwrap().clear();
	let samples = s.manager.backend_mut().callback(frames, 2);
	let events: Vec<SysEvent> = std::mem::take(&mut *s.log.lock().unwrap());

	let mut chunks: Vec<ChunkObs> = vec![];
	let mut cur = ChunkObs::default();
	for e in events {
		match e {
			SysEvent::ModUpdate { tag, dt, value, seen } => {
				if !cur.sounds.is_empty() {
					cur.disorder = true;
				}
				cur.mods.push((tag, dt, value, seen));
			}
			SysEvent::SoundProcess { tag, frames, dt, param, seen } => {
				cur.sounds.push((tag, frames, dt, param, seen));
				if cur.sounds.len() == n_sounds {
					cur.sounds.sort_by_key(|x| x.0);
					chunks.push(std::mem::take(&mut cur));
				}
			}
		}
	}
	let leftover = !cur.mods.is_empty() || !cur.sounds.is_empty();

	// expected chunking (renderer.rs: chunks of internal_buffer_size frames, the last one shorter)
	let mut expect_sizes = vec![];
	let mut rest = frames;
	while rest > 0 {
		let n = rest.min(s.ibs);
		expect_sizes.push(n);
		rest -= n;
	}
	let got_sizes: Vec<usize> = chunks.iter().map(|c| c.sounds[0].1).collect();
	if got_sizes != expect_sizes || leftover {
		ofail(out, &mut reported, "sys_chunking", l);
	}

	let mut line = format!("cb {}", chunks.len());
	let mut offset = 0usize;
	for c in &chunks {
		let n = c.sounds[0].1;
		let s0 = &c.sounds[0];
		let dtc = s.dt * n as f64;
		let sound_seen = s0.4.clone();
		let left: Vec<f32> = (0..n).map(|i| samples.get(2 * (offset + i)).copied().unwrap_or(f32::NAN)).collect();
		let right: Vec<f32> = (0..n).map(|i| samples.get(2 * (offset + i) + 1).copied().unwrap_or(f32::NAN)).collect();
		offset += n;
		line += &format!(
			" / n={} d={} u=[{}] m={} p=[{}] o={}",
			n,
			h64(s0.2),
			c.mods
				.iter()
				.map(|(tag, dt, v, seen)| format!("{}@{}:{}:{}", tag, h64(*dt), h64(*v), seen_str(seen)))
				.collect::<Vec<_>>()
				.join(";"),
			seen_str(&sound_seen),
			c.sounds[1..].iter().map(|x| h64(x.3)).collect::<Vec<_>>().join(","),
			left.iter().map(|x| h32(*x)).collect::<Vec<_>>().join(",")
		);

		// =============================== oracles (C17) ===============================
		if left.iter().zip(&right).any(|(a, b)| a.to_bits() != b.to_bits()) {
			ofail(out, &mut reported, "sys_stereo", l);
		}
		if c.disorder {
			ofail(out, &mut reported, "sys_once_per_chunk", format!("{} :: a modulator was updated after a reader", l));
		}
		if s0.2.to_bits() != s.dt.to_bits() || c.sounds.iter().any(|x| x.1 != n) {
			ofail(out, &mut reported, "sys_chunking", format!("{} :: dt/frames seen by sounds", l));
		}
		for m in s.mods.iter_mut() {
			if m.in_store {
				m.chunks_alive += 1;
			}
		}
		// presence: a modulator resolves iff it is in the store
		if sound_seen.len() != s.mods.len() {
			ofail(out, &mut reported, "sys_presence", format!("{} :: watch list length", l));
			continue;
		}
		for (k, m) in s.mods.iter().enumerate() {
			if sound_seen[k].is_some() != m.in_store {
				ofail(out, &mut reported, "sys_presence", format!("{} :: modulator {} in_store={}", l, k, m.in_store));
			}
		}
		// each probe modulator: updated exactly once, in insertion order, before every reader, with the chunk's dt
		let expected_probes: Vec<usize> =
			s.mods.iter().enumerate().filter(|(_, m)| m.in_store && matches!(m.book, Book::Probe)).map(|(k, _)| k).collect();
		let got_probes: Vec<usize> = c.mods.iter().map(|x| x.0).collect();
		if expected_probes != got_probes {
			ofail(out, &mut reported, "sys_once_per_chunk", format!("{} :: updates {:?} expected {:?}", l, got_probes, expected_probes));
		}
		for (k, dt, value, seen) in &c.mods {
			let k = *k;
			if k >= s.mods.len() || seen.len() != s.mods.len() {
				continue;
			}
			if dt.to_bits() != dtc.to_bits() {
				ofail(out, &mut reported, "sys_once_per_chunk", format!("{} :: modulator {} dt", l, k));
			}
			if *value != s.mods[k].chunks_alive as f64 || sound_seen[k] != Some(*value) {
				ofail(out, &mut reported, "sys_once_per_chunk", format!("{} :: modulator {} update count", l, k));
			}
			// what this modulator saw of the others, against the values of *this* chunk
			for j in 0..s.mods.len() {
				if !s.mods[j].in_store {
					if seen[j].is_some() {
						ofail(out, &mut reported, "sys_mod_sees_mod", format!("{} :: reader={} source={} relation=absent", l, k, j));
					}
					continue;
				}
				if j == k {
					let x = seen[j];
					if x != Some(*value) && x != Some(*value - 1.0) {
						ofail(out, &mut reported, "sys_mod_sees_mod", format!("{} :: reader={} source={} relation=self", l, k, j));
					}
				} else if seen[j] != sound_seen[j] {
					let rel = if j < k { "earlier" } else { "later" };
					ofail(out, &mut reported, "sys_mod_sees_mod", format!("{} :: reader={} source={} relation={}", l, k, j, rel));
				}
			}
		}
		// built-in modulators against their documented curves
		for k in 0..s.mods.len() {
			if !s.mods[k].in_store {
				continue;
			}
			let v = match sound_seen[k] {
				Some(v) => v,
				None => continue,
			};
			// follower LFOs first (needs read access to the other entries)
			let follow = match &s.mods[k].book {
				Book::Lfo(b) if b.amp_zero => b.follow,
				_ => None,
			};
			if let Some((j, mapping)) = follow {
				if j < s.mods.len() {
					if let Some(src) = sound_seen[j] {
						let rel = if j < k {
							"earlier"
						} else if j > k {
							"later"
						} else {
							"self"
						};
						let prev_own = match &s.mods[k].book {
							Book::Lfo(b) => b.last,
							_ => None,
						};
						let ok = if j == k {
							v == mapping.map(v) || prev_own.map(|p| v == mapping.map(p)).unwrap_or(false)
						} else {
							v == mapping.map(src)
						};
						if !ok {
							ofail(out, &mut reported, 
								"sys_lfo_link_same_chunk",
								format!("{} :: reader={} source={} relation={}", l, k, j, rel),
							);
						}
					}
				}
			}
			match &mut s.mods[k].book {
				Book::Tw(b) => {
					if let Some(x) = b.landed_on {
						if v != x {
							ofail(out, &mut reported, "sys_tweener_holds", format!("{} :: modulator {}", l, k));
						}
					}
					if let Some((st, t, d, el, linear)) = b.flight {
						let el = el + dtc;
						b.flight = Some((st, t, d, el, linear));
						let (lo, hi) = (st.min(t), st.max(t));
						let slack = 1e-9 * (hi - lo).abs().max(lo.abs()).max(hi.abs()).max(1e-30);
						if !(v >= lo - slack && v <= hi + slack) {
							ofail(out, &mut reported, "sys_tweener_curve", format!("{} :: modulator {} interval", l, k));
						}
						if el > d * (1.0 + 1e-9) + 1e-12 {
							if v != t {
								ofail(out, &mut reported, "sys_tweener_curve", format!("{} :: modulator {} landing", l, k));
							}
							b.landed_on = Some(t);
							b.flight = None;
						} else if linear && el < d * (1.0 - 1e-9) {
							let expect = st + (t - st) * (el / d);
							if (v - expect).abs() > 1e-9 * (1.0 + st.abs() + t.abs()) {
								ofail(out, &mut reported, "sys_tweener_curve", format!("{} :: modulator {} linear", l, k));
							}
						}
					}
					b.last = v;
				}
				Book::Lfo(b) => {
					if let Some((f, a, o, p0)) = b.fixed {
						b.elapsed += dtc;
						let slack = 1e-12 * (1.0 + a.abs() + o.abs());
						if (v - o).abs() > a.abs() + slack {
							ofail(out, &mut reported, 
								"sys_lfo_range",
								format!("{} :: modulator {} wf={}", l, k, wf_name(b.waveform)),
							);
						}
						let cycles = p0 + f * b.elapsed;
						// negative frequencies / phases are ordinary inputs: Euclidean fractional part below
						if cycles.abs() < 1e6 {
							let p = cycles - cycles.floor();
							if let Some(w) = reference_wave(b.waveform, p) {
								let expect = o + a * w;
								let tol = 1e-7 * (1.0 + a.abs()) * (1.0 + cycles.abs() * 1e-3);
								let near_corner = matches!(b.waveform, Waveform::Saw | Waveform::Pulse { .. })
									&& ((p < 1e-6) || (p > 1.0 - 1e-6));
								if !near_corner && (v - expect).abs() > tol {
									ofail(out, &mut reported, "sys_lfo_curve", format!("{} :: modulator {}", l, k));
								}
							}
						}
					}
					b.last = Some(v);
				}
				Book::Probe => {}
			}
		}
		// readers: the linked sound parameters
		for (i, sb) in s.sounds.iter_mut().enumerate() {
			let param = c.sounds[1 + i].3;
			if let Some((j, mapping)) = sb.link {
				match sound_seen.get(j).copied().flatten() {
					Some(src) => {
						if param != mapping.map(src) {
							ofail(out, &mut reported, "sys_reader_same_chunk", format!("{} :: sound {} source={}", l, i, j));
						}
						// "input clamped to the mapping's range": at or beyond an end of the input range the
						// output is that end of the output range (independent of Mapping::map)
						let (i0, i1) = mapping.input_range;
						let (o0, o1) = mapping.output_range;
						let beyond0 = (i0 < i1 && src <= i0) || (i1 < i0 && src >= i0);
						let beyond1 = (i0 < i1 && src >= i1) || (i1 < i0 && src <= i1);
						let tol = 1e-12 * (1.0 + o0.abs() + o1.abs());
						if (beyond0 && (param - o0).abs() > tol) || (beyond1 && (param - o1).abs() > tol) {
							ofail(out, &mut reported, "sys_mapping_clamps", format!("{} :: sound {} source={}", l, i, j));
						}
					}
					None => {
						if param.to_bits() != sb.last_param.to_bits() {
							ofail(out, &mut reported, "sys_holds_after_removed", format!("{} :: sound {} source={}", l, i, j));
						}
					}
				}
			}
			sb.last_param = param;
		}
		// reader: the main track's volume, observed as the gain of the constant sum
		if let (Some((j, mapping)), Some(&last)) = (s.main_link, left.last()) {
			match sound_seen.get(j).copied().flatten() {
				Some(src) => {
					let db = mapping.map(src);
					let expect = (level * db.as_amplitude()).clamp(-1.0, 1.0);
					// as_amplitude jumps at -60 dB: an f32 ulp decides there
					let at_jump = (db.0 + 60.0).abs() < 0.01;
					if !at_jump && (last - expect).abs() > 1e-5 * expect.abs() + 1e-7 {
						ofail(out, &mut reported, "sys_gain_follows", format!("{} :: source={}", l, j));
					}
					s.hold_chunks = 0;
				}
				None => {
					s.hold_chunks += 1;
					// from the second chunk after the removal the whole chunk sits on the held gain
					if s.hold_chunks >= 2 && s.last_level == Some(level) {
						if let Some(g) = s.last_gain_sample {
							if left.iter().any(|x| x.to_bits() != g.to_bits()) {
								ofail(out, &mut reported, "sys_holds_after_removed", format!("{} :: main volume source={}", l, j));
							}
						}
					}
				}
			}
		}
		s.last_gain_sample = left.last().copied();
		s.last_level = Some(level);
	}
	out.put(line);
}

pub fn run(ops: &[String]) -> Vec<String> {
	run_cases(ops, None, |case: &[String], out: &mut Out| {
		out.put(case[0].clone());
		let mut sys: Option<Sys> = None;
		for l in &case[1..] {
			let tok: Vec<&str> = l.split_whitespace().collect();
			if tok[0] == "init" {
				let sr: u32 = tok[1].parse().unwrap();
				let ibs: usize = tok[2].parse().unwrap();
				let cap: usize = tok[3].parse().unwrap();
				let mut manager = probe::manager(
					Capacities { modulator_capacity: cap, ..Default::default() },
					ibs,
					sr,
					MainTrackBuilder::new(),
				);
				let log: SysLog = Arc::new(Mutex::new(vec![]));
				let watch: WatchList = Arc::new(Mutex::new(vec![]));
				manager
					.play(ParamProbeSoundData {
						tag: 0,
						value: Value::Fixed(0.0),
						default: 0.0,
						frame: Frame::new(S0_LEVEL, S0_LEVEL),
						log: log.clone(),
						watch: watch.clone(),
					})
					.unwrap();
				sys = Some(Sys {
					manager,
					dt: 1.0 / sr as f64,
					ibs,
					log,
					watch,
					mods: vec![],
					sounds: vec![],
					s0_active: false,
					main_pending: None,
					main_link: None,
					last_gain_sample: None,
					last_level: None,
					hold_chunks: 0,
				});
				out.put("ok");
				continue;
			}
			let s = sys.as_mut().expect("modsys: init first");
			match tok[0] {
				"add_lfo" => {
					let ids = ids_of(s);
					let waveform = parse_waveform(tok[1]);
					let f: Value<f64> = parse_value(tok[2], &ids);
					let a: Value<f64> = parse_value(tok[3], &ids);
					let o: Value<f64> = parse_value(tok[4], &ids);
					let ph = p64(tok[5]);
					let r = s
						.manager
						.add_modulator(LfoBuilder { waveform, frequency: f, amplitude: a, offset: o, starting_phase: ph })
						.map_err(|_| ())
						.map(|h| {
							let fixed = match (f, a, o) {
								(Value::Fixed(f), Value::Fixed(a), Value::Fixed(o)) => Some((f, a, o, ph / TAU)),
								_ => None,
							};
							let follow = match o {
								Value::FromModulator { id, mapping } => ids.mods.iter().position(|x| *x == id).map(|j| (j, mapping)),
								_ => None,
							};
							let book = LfoBook {
								waveform,
								fixed,
								elapsed: 0.0,
								amp_zero: matches!(a, Value::Fixed(x) if x == 0.0),
								follow,
								pending: LfoPending::default(),
								last: None,
							};
							(h.id(), Handle::Lfo(h), Book::Lfo(book))
						});
					add_result(s, r, out);
				}
				"add_tw" => {
					let v0 = p64(tok[1]);
					let r = s.manager.add_modulator(TweenerBuilder { initial_value: v0 }).map_err(|_| ()).map(|h| {
						(h.id(), Handle::Tw(h), Book::Tw(TwBook { pending: None, flight: None, landed_on: Some(v0), last: v0 }))
					});
					add_result(s, r, out);
				}
				"add_probe" => {
					let tag = s.mods.len();
					let r = s
						.manager
						.add_modulator(ProbeModulatorBuilder { tag, log: s.log.clone(), watch: s.watch.clone() })
						.map_err(|_| ())
						.map(|h| (h.id, Handle::Probe(h), Book::Probe));
					add_result(s, r, out);
				}
				"lfo.set_frequency" | "lfo.set_amplitude" | "lfo.set_offset" | "lfo.set_waveform" | "lfo.set_phase" => {
					let ids = ids_of(s);
					let k = pu(tok[1]) as usize;
					let m = &mut s.mods[k];
					match (&mut m.handle, &mut m.book) {
						(Some(Handle::Lfo(h)), Book::Lfo(b)) => {
							match tok[0] {
								"lfo.set_waveform" => {
									let w = parse_waveform(tok[2]);
									h.set_waveform(w);
									b.pending.waveform = Some(w);
								}
								"lfo.set_phase" => {
									let p = p64(tok[2]);
									h.set_phase(p);
									b.pending.phase = Some(p);
								}
								_ => {
									let v: Value<f64> = parse_value(tok[2], &ids);
									let tw = parse_tween(tok[3], &ids);
									match tok[0] {
										"lfo.set_frequency" => {
											h.set_frequency(v, tw);
											b.pending.frequency = true;
										}
										"lfo.set_amplitude" => {
											h.set_amplitude(v, tw);
											b.pending.amplitude = true;
										}
										_ => {
											h.set_offset(v, tw);
											b.pending.offset = Some((v, tw));
										}
									}
								}
							}
							out.put("ok");
						}
						_ => out.put("nohandle"),
					}
				}
				"tw.set" => {
					let ids = ids_of(s);
					let k = pu(tok[1]) as usize;
					let m = &mut s.mods[k];
					match (&mut m.handle, &mut m.book) {
						(Some(Handle::Tw(h)), Book::Tw(b)) => {
							let target = p64(tok[2]);
							let tw = parse_tween(tok[3], &ids);
							h.set(target, tw);
							b.pending = Some((target, tw));
							out.put("ok");
						}
						_ => out.put("nohandle"),
					}
				}
				"drop" => {
					let k = pu(tok[1]) as usize;
					s.mods[k].handle = None;
					out.put("ok");
				}
				"main.set_volume" => {
					let ids = ids_of(s);
					let v: Value<Decibels> = parse_value(tok[1], &ids);
					let tw = parse_tween(tok[2], &ids);
					s.manager.main_track().set_volume(v, tw);
					s.main_pending = Some((v, tw));
					out.put("ok");
				}
				"play" => {
					let ids = ids_of(s);
					let v: Value<f64> = parse_value(tok[1], &ids);
					let default = p64(tok[2]);
					let tag = 1 + s.sounds.len();
					s.manager
						.play(ParamProbeSoundData {
							tag,
							value: v,
							default,
							frame: Frame::new(SN_LEVEL, SN_LEVEL),
							log: s.log.clone(),
							watch: s.watch.clone(),
						})
						.unwrap();
					let (link, last_param) = match v {
						Value::FromModulator { id, mapping } => {
							(ids.mods.iter().position(|x| *x == id).map(|j| (j, mapping)), default)
						}
						Value::Fixed(x) => (None, x),
						_ => (None, default),
					};
					s.sounds.push(SoundBook { link, last_param, active: false });
					out.put("ok");
				}
				"callback" => {
					let frames = pu(tok[1]) as usize;
					callback(s, frames, l, out);
				}
				_ => panic!("modsys: unknown op {}", tok[0]),
			}
		}
	})
}

// ------------------------------------------------------------------------------------------------
// generator
// ------------------------------------------------------------------------------------------------

fn gen_mapping64(rng: &mut Rng, counters: bool) -> String {
	let (i0, i1) = if counters && rng.chance(1, 2) {
		let a = rng.pick(&[0.0, 1.0, 2.0]);
		(a, a + rng.pick(&[4.0, 8.0, 16.0, -3.0]))
	} else {
		let a = rng.uniform(-2.0, 2.0);
		(a, a + rng.pick(&[1.0, -1.0, 0.5, 3.0, 8.0]))
	};
	let (o0, o1) = match rng.below(3) {
		0 => (0.0, 1.0),
		1 => (rng.pick(&[0.5, -1.0, 2.0]), rng.pick(&[1.0, 3.0, -2.0])),
		_ => (rng.uniform(-3.0, 3.0), rng.uniform(-3.0, 3.0)),
	};
	format!("{},{},{},{},{}", o64(i0), o64(i1), o64(o0), o64(o1), fmt_easing(&gen_easing(rng)))
}
fn gen_link64(rng: &mut Rng, k: u64) -> String {
	format!("mod:{}:{}", k, gen_mapping64(rng, true))
}
fn gen_value64(rng: &mut Rng, nmods: u64, what: u8) -> String {
	if nmods > 0 && rng.chance(1, 3) {
		let k = rng.below(nmods);
		gen_link64(rng, k)
	} else {
		format!("fix:{}", o64(gen_fixed(rng, what)))
	}
}
fn gen_value_db(rng: &mut Rng, nmods: u64) -> String {
	let db = |rng: &mut Rng| -> f32 {
		match rng.below(4) {
			0 => rng.pick(&[0.0f32, -6.0, -60.0, 6.0, -12.0, -70.0]),
			_ => rng.uniform(-40.0, 6.0) as f32,
		}
	};
	if nmods > 0 && rng.chance(2, 3) {
		let a = rng.uniform(-2.0, 2.0);
		let b = a + rng.pick(&[1.0, -1.0, 4.0, 8.0]);
		format!(
			"mod:{}:{},{},{},{},{}",
			rng.below(nmods),
			o64(a),
			o64(b),
			h32(db(rng)),
			h32(db(rng)),
			fmt_easing(&gen_easing(rng))
		)
	} else {
		format!("fix:{}", h32(db(rng)))
	}
}
/// tweens without clock start times (this system has no clocks)
fn gen_tween_sys(rng: &mut Rng) -> String {
	let start = match rng.below(8) {
		0 => "del:0".to_string(),
		1 => format!("del:{}", rng.below(2_000_000_000)),
		_ => "imm".to_string(),
	};
	let d = match rng.below(3) {
		0 => 0,
		_ => gen_duration_ns(rng),
	};
	format!("{};{};{}", start, d, fmt_easing(&gen_easing(rng)))
}

pub fn gen(rng: &mut Rng, n: usize, _thorough: bool, stats: &mut Stats) -> Vec<String> {
	let mut out = vec![];
	for case in 0..n {
		out.push(format!("case {}", case));
		let sr = rng.pick(&[1u32, 2, 4, 10, 100, 1000, 48000]);
		let ibs = rng.pick(&[1usize, 2, 3, 4, 8, 16, 128]);
		let flavour = rng.below(4); // 0: anything, 1: probes, 2: followers, 3: tweeners + readers
		let cap = if flavour == 2 { rng.pick(&[3usize, 4, 6]) } else { rng.pick(&[1usize, 2, 3, 4, 6]) };
		out.push(format!("init {} {} {}", sr, ibs, cap));
		// kinds of the modulators allocated so far (0 lfo, 1 tweener, 2 probe), whether the handle is alive
		let mut kinds: Vec<(u8, bool)> = vec![];
		// where each modulator is: 0 = in the new-resource ring, 1 = in the store, 2 = removed
		let mut place: Vec<u8> = vec![];
		let mut plays = 0;
		stats.hit(&format!("flavour_{}", flavour));
		let steps = rng.range(8, 30);
		for _ in 0..steps {
			let nm = kinds.len() as u64;
			let roll = rng.below(20);
			let line = match roll {
				0..=3 => {
					let kind = match flavour {
						1 => 2,
						2 => rng.pick(&[0u8, 0, 1, 2]),
						3 => rng.pick(&[1u8, 1, 0]),
						_ => rng.below(3) as u8,
					};
					let live = place.iter().filter(|p| **p != 2).count();
					if live < cap {
						kinds.push((kind, true));
						place.push(0);
					} else {
						stats.hit("add_when_full");
					}
					match kind {
						0 => {
							if flavour == 2 && nm == 0 {
								format!(
									"add_lfo {} fix:{} fix:{} fix:{} {}",
									gen_waveform(rng),
									o64(gen_fixed(rng, 0)),
									o64(0.0),
									o64(gen_fixed(rng, 1)),
									o64(gen_phase(rng))
								)
							} else if flavour == 2 && rng.chance(4, 5) {
								// follower: amplitude 0, offset linked
								let j = rng.below(nm);
								format!(
									"add_lfo {} fix:{} fix:{} {} {}",
									gen_waveform(rng),
									o64(gen_fixed(rng, 0)),
									o64(0.0),
									gen_link64(rng, j),
									o64(gen_phase(rng))
								)
							} else if rng.chance(1, 2) {
								format!(
									"add_lfo {} fix:{} fix:{} fix:{} {}",
									gen_waveform(rng),
									o64(gen_fixed(rng, 0)),
									o64(gen_fixed(rng, 1)),
									o64(gen_fixed(rng, 1)),
									o64(gen_phase(rng))
								)
							} else {
								format!(
									"add_lfo {} {} {} {} {}",
									gen_waveform(rng),
									gen_value64(rng, nm, 0),
									gen_value64(rng, nm, 1),
									gen_value64(rng, nm, 1),
									o64(gen_phase(rng))
								)
							}
						}
						1 => format!("add_tw {}", o64(rng.pick(&[0.0, 1.0, -1.0, 0.5, 2.0]))),
						_ => "add_probe".to_string(),
					}
				}
				4 | 5 if nm > 0 => {
					let k = rng.below(nm);
					match kinds[k as usize].0 {
						0 => match if flavour == 2 { 5 } else { rng.below(6) } {
							0 => format!("lfo.set_frequency {} {} {}", k, gen_value64(rng, nm, 0), gen_tween_sys(rng)),
							1 => format!("lfo.set_amplitude {} {} {}", k, gen_value64(rng, nm, 1), gen_tween_sys(rng)),
							2 => format!("lfo.set_waveform {} {}", k, gen_waveform(rng)),
							3 => format!("lfo.set_phase {} {}", k, o64(gen_phase(rng))),
							// retarget the offset: to a later modulator, to itself, to anything
							_ => {
								let j = match rng.below(4) {
									0 => k,
									1 | 2 => nm - 1,
									_ => rng.below(nm),
								};
								format!("lfo.set_offset {} {} imm;0;lin", k, gen_link64(rng, j))
							}
						},
						1 => format!("tw.set {} {} {}", k, o64(rng.pick(&[0.0, 1.0, -1.0, 3.0, 0.25])), gen_tween_sys(rng)),
						_ => format!("drop {}", k),
					}
				}
				6 if nm > 0 => format!("drop {}", rng.below(nm)),
				7 => {
					if rng.chance(1, 2) {
						format!("main.set_volume {} imm;0;lin", gen_value_db(rng, nm))
					} else {
						format!("main.set_volume {} {}", gen_value_db(rng, nm), gen_tween_sys(rng))
					}
				}
				8 if plays < MAX_PLAYS => {
					plays += 1;
					format!("play {} {}", gen_value64(rng, nm.min(64), 1), o64(rng.pick(&[0.0, 1.0, -0.5])))
				}
				_ => {
					let frames = match rng.below(8) {
						0 => ibs as u64,
						1 => 2 * ibs as u64 + 1,
						2 => 1,
						3 => rng.pick(&[0u64, 3, 5, 8, 17, 32]),
						_ => 1 + rng.below(40),
					};
					format!("callback {}", frames.min(64))
				}
			};
			stats.hit(line.split(' ').next().unwrap());
			if line.starts_with("drop ") {
				let k: usize = line[5..].parse().unwrap();
				kinds[k].1 = false;
			}
			if line.starts_with("callback ") {
				for k in 0..place.len() {
					if place[k] == 1 && !kinds[k].1 {
						place[k] = 2;
					}
				}
				for p in place.iter_mut() {
					if *p == 0 {
						*p = 1;
					}
				}
			}
			out.push(line);
		}
		out.push("callback 4".to_string());
	}
	out
}
