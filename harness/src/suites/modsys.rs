//! placeholder
use crate::util::*;
pub fn gen(_rng: &mut Rng, _n: usize, _thorough: bool, _stats: &mut Stats) -> Vec<String> { vec![] }
pub fn run(_ops: &[String]) -> Vec<String> { vec![] }
