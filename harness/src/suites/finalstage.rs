//! Suite `final` (C01): the renderer's last stage (sum of main-track sounds → clamp → channel
//! conversion, chunked by the internal buffer size) through the PUBLIC API, bit-exact against the twin.
//! ops: mgr <ibs> <sr> | snd <l f32> <r f32> (endless constant sound on the main track) | cb <frames> <channels>
use crate::probe::{self, new_log, ProbeSoundData, Signal};
use crate::runner::{run_cases, Out};
use crate::util::*;
use kira::track::MainTrackBuilder;
use kira::Capacities;

const VALS: &[f32] = &[
	0.0, -0.0, 1.0, -1.0, 0.5, -0.5, 0.25, 2.0, -2.0, 1.5, -1.5, 0.99999994, 1.0000001, -1.0000001, 1e-40, 3.4e38, -3.4e38,
	0.1, 0.3, -0.7, 100.0, f32::INFINITY, f32::NEG_INFINITY, f32::NAN,
];

pub fn gen(rng: &mut Rng, n: usize, _thorough: bool, stats: &mut Stats) -> Vec<String> {
	let mut out = vec![];
	for case in 0..n {
		out.push(format!("case {}", case));
		let ibs = rng.pick(&[1u64, 2, 3, 5, 8, 16]);
		out.push(format!("mgr {} {}", ibs, rng.pick(&[8000u32, 44100, 48000])));
		for _ in 0..rng.range(3, 10) {
			let line = if rng.chance(2, 5) {
				let v = |rng: &mut Rng| if rng.chance(2, 3) { rng.pick(VALS) } else { rng.uniform(-3.0, 3.0) as f32 };
				format!("snd {} {}", o32(v(rng)), o32(v(rng)))
			} else {
				format!("cb {} {}", rng.pick(&[1u64, 2, ibs, ibs + 1, 2 * ibs + 1, 7]), rng.pick(&[1u64, 2, 2, 3, 4, 8]))
			};
			stats.hit(line.split(' ').next().unwrap());
			out.push(line);
		}
	}
	out
}

pub fn run(ops: &[String]) -> Vec<String> {
	run_cases(ops, None, |case: &[String], out: &mut Out| {
		let mut mgr = None;
		for l in case {
			let tok: Vec<&str> = l.split_whitespace().collect();
			match tok[0] {
				"case" => out.put(l.clone()),
				"mgr" => {
					mgr = Some(probe::manager(
						Capacities::default(),
						pu(tok[1]) as usize,
						pu(tok[2]) as u32,
						MainTrackBuilder::new(),
					));
					out.put("ok");
				}
				"snd" => {
					let m = mgr.as_mut().unwrap();
					let r = m.play(ProbeSoundData {
						signal: Signal::Constant { left: p32(tok[1]), right: p32(tok[2]) },
						length: None,
						log: new_log(),
					});
					out.put(if r.is_ok() { "ok" } else { "limit" });
				}
				"cb" => {
					let m = mgr.as_mut().unwrap();
					let ch = pu(tok[2]) as u16;
					let buf = m.backend_mut().callback(pu(tok[1]) as usize, ch);
					out.put(buf.iter().map(|x| h32(*x)).collect::<Vec<_>>().join(" "));
					// oracles (C01): range, silent extra channels
					for (i, x) in buf.iter().enumerate() {
						if !x.is_finite() || !(-1.0..=1.0).contains(x) {
							out.oracle_fail("out_of_range_sample", l);
							break;
						}
						if ch > 2 && i % ch as usize >= 2 && x.to_bits() != 0 {
							out.oracle_fail("extra_channel_not_silent", l);
							break;
						}
					}
				}
				_ => panic!("final: unknown op"),
			}
		}
	})
}
