//! kv-harness — drives the real kira code (built from /repo's working tree with
//! `--cfg kira_verif`) for the correspondence check.
//!
//!   kv-harness gen <suite> <seed> <n> <tier>      → ops lines on stdout (+ `#STATS {json}` last line)
//!   kv-harness run <suite> < ops                  → impl trace on stdout, one line per op line
//!                                                   (+ `!oracle …` lines for implementation-side oracles)
mod alloc_monitor;
mod probe;
mod runner;
mod sched;
mod seqop;
mod suites;
mod sweep;
mod util;

use std::io::{BufRead, Write};

#[global_allocator]
static GLOBAL: alloc_monitor::Counting = alloc_monitor::Counting;

fn main() {
	let args: Vec<String> = std::env::args().collect();
	if args.len() < 3 {
		eprintln!("usage: kv-harness gen <suite> <seed> <n> <tier> | run <suite>");
		std::process::exit(2);
	}
	let mode = args[1].as_str();
	let suite = args[2].as_str();
	match mode {
		"gen" => {
			let seed: u64 = args.get(3).map(|s| s.parse().unwrap()).unwrap_or(1);
			let n: usize = args.get(4).map(|s| s.parse().unwrap()).unwrap_or(100);
			let thorough = args.get(5).map(|s| s == "thorough").unwrap_or(false);
			let mut rng = util::Rng::new(seed ^ suites::suite_salt(suite));
			let mut stats = util::Stats::default();
			let lines = suites::gen(suite, &mut rng, n, thorough, &mut stats);
			let stdout = std::io::stdout();
			let mut w = std::io::BufWriter::new(stdout.lock());
			for l in lines {
				writeln!(w, "{}", l).unwrap();
			}
			writeln!(w, "#STATS {}", stats.json()).unwrap();
		}
		"run" => {
			runner::install_panic_hook();
			let stdin = std::io::stdin();
			let ops: Vec<String> = stdin.lock().lines().map(|l| l.unwrap()).collect();
			let lines = suites::run(suite, &ops);
			let stdout = std::io::stdout();
			let mut w = std::io::BufWriter::new(stdout.lock());
			for l in lines {
				writeln!(w, "{}", l).unwrap();
			}
		}
		"sweep" => sweep::run(suite),
		_ => {
			eprintln!("unknown mode {}", mode);
			std::process::exit(2);
		}
	}
}
