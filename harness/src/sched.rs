//! Two real threads under a script (the `par …` ops of the concurrency suites).
//!
//! Thread 0 = gameplay (G), thread 1 = audio (A). kira's named yield points
//! (`kira::verif_hooks::yield_point`) cut each thread's code into *segments*; the script (a word
//! over {g,a}) says whose segment runs next; an entry for a finished thread is skipped; when the
//! script is exhausted G runs to its end, then A. The Lean twin (`Exec/Sched.lean`) implements the
//! same rule, so a `par` op is deterministic and comparable.
#![allow(dead_code)]

use std::cell::RefCell;
use std::panic::{catch_unwind, AssertUnwindSafe};
use std::sync::{Arc, Condvar, Mutex, Once};

struct Inner {
	script: Vec<usize>,
	cursor: usize,
	finished: [bool; 2],
}

pub struct Sched {
	inner: Mutex<Inner>,
	cv: Condvar,
	sites: Vec<&'static str>,
}

thread_local! {
	static CUR: RefCell<Option<(Arc<Sched>, usize)>> = RefCell::new(None);
}

fn turn(i: &mut Inner) -> Option<usize> {
	loop {
		if i.finished[0] && i.finished[1] {
			return None;
		}
		if i.cursor < i.script.len() {
			let e = i.script[i.cursor];
			if i.finished[e] {
				i.cursor += 1;
				continue;
			}
			return Some(e);
		}
		return Some(if !i.finished[0] { 0 } else { 1 });
	}
}

impl Sched {
	fn wait_turn<'a>(&'a self, mut g: std::sync::MutexGuard<'a, Inner>, me: usize) {
		while turn(&mut g) != Some(me) {
			g = self.cv.wait(g).unwrap();
		}
	}
	fn start(&self, me: usize) {
		let g = self.inner.lock().unwrap();
		self.wait_turn(g, me);
	}
	fn consume(g: &mut Inner) {
		if g.cursor < g.script.len() {
			g.cursor += 1;
		}
	}
	fn yield_now(&self, me: usize) {
		YIELD_COUNT.fetch_add(1, std::sync::atomic::Ordering::SeqCst);
		let mut g = self.inner.lock().unwrap();
		Self::consume(&mut g);
		self.cv.notify_all();
		self.wait_turn(g, me);
	}
	fn end(&self, me: usize) {
		let mut g = self.inner.lock().unwrap();
		Self::consume(&mut g);
		g.finished[me] = true;
		self.cv.notify_all();
	}
}

static HOOK: Once = Once::new();

fn install_hook() {
	HOOK.call_once(|| {
		kira::verif_hooks::set_yield_hook(Some(Arc::new(|site: &'static str| {
			let cur = CUR.with(|c| c.borrow().clone());
			if let Some((s, me)) = cur {
				if s.sites.iter().any(|x| *x == site) {
					s.yield_now(me);
				}
			}
		})));
	});
}

pub fn parse_script(s: &str) -> Vec<usize> {
	if s == "-" {
		return vec![];
	}
	s.chars().map(|c| if c == 'g' { 0 } else { 1 }).collect()
}

/// Runs `g` and `a` on two threads under `script`, yielding at the given sites.
/// A panic on a thread is returned as `Err(message)`.
pub fn run2<RG: Send, RA: Send>(
	script: &[usize],
	sites: &[&'static str],
	g: impl FnOnce() -> RG + Send,
	a: impl FnOnce() -> RA + Send,
) -> (Result<RG, String>, Result<RA, String>) {
	install_hook();
	let sched = Arc::new(Sched {
		inner: Mutex::new(Inner {
			script: script.to_vec(),
			cursor: 0,
			finished: [false, false],
		}),
		cv: Condvar::new(),
		sites: sites.to_vec(),
	});
	fn body<R>(sched: Arc<Sched>, me: usize, f: impl FnOnce() -> R) -> Result<R, String> {
		CUR.with(|c| *c.borrow_mut() = Some((sched.clone(), me)));
		sched.start(me);
		let r = catch_unwind(AssertUnwindSafe(f));
		CUR.with(|c| *c.borrow_mut() = None);
		sched.end(me);
		r.map_err(|_| crate::runner::last_panic())
	}
	std::thread::scope(|sc| {
		let s0 = sched.clone();
		let s1 = sched.clone();
		let hg = sc.spawn(move || body(s0, 0, g));
		let ha = sc.spawn(move || body(s1, 1, a));
		(hg.join().unwrap(), ha.join().unwrap())
	})
}

/// Does /repo have the yield site `site`? (runs `f` with only that site enabled and counts the yields)
pub fn site_fires(site: &'static str, f: impl FnOnce() + Send) -> bool {
	let before = YIELD_COUNT.load(std::sync::atomic::Ordering::SeqCst);
	let _ = run2(&[], &[site], f, || ());
	YIELD_COUNT.load(std::sync::atomic::Ordering::SeqCst) > before
}

pub static YIELD_COUNT: std::sync::atomic::AtomicUsize = std::sync::atomic::AtomicUsize::new(0);
