//! `seq <op> ; <op> ; …` — several ops on one line (one trace line: the results joined by ` ; `).
//! Oracle details are written in this form so that a failing history is a single replayable op line.
#![allow(dead_code)]
use crate::runner::Out;

/// Drives one case: `f(state, op_line, history_as_seq_line, out) -> result`.
pub fn drive<S>(case: &[String], out: &mut Out, st: &mut S, f: impl Fn(&mut S, &str, &str, &mut Out) -> String) {
	let mut hist: Vec<String> = vec![];
	for line in case {
		if line.starts_with("case") {
			out.put(line.clone());
			continue;
		}
		let subs: Vec<String> = if let Some(rest) = line.strip_prefix("seq ") {
			rest.split(" ; ").map(|s| s.trim().to_string()).collect()
		} else {
			vec![line.clone()]
		};
		let mut res = vec![];
		for s in subs {
			hist.push(s.clone());
			let detail = format!("seq {}", hist.join(" ; "));
			res.push(f(st, &s, &detail, out));
		}
		out.put(res.join(" ; "));
	}
}
